/-
  Driver engine `sftp` (property C19): runs the model of sftpfs over the modelled SFTP server
  (Model/Sftp.lean) on a script and prints, for every line, the result of the call *and* what the
  server holds before/after it — the same text the Go harness derives from the real sftpfs result
  and from its second, independent connection to the real server.
-/
import AferoVerif.Model.Sftp
namespace AferoVerif.Engine.Sftp
open AferoVerif Script AferoVerif.Path AferoVerif.Sftp

def toStr (b : Bytes) : Str := b.map fun x => Char.ofNat x.toNat
def ofStr (s : Str) : Bytes := s.map fun c => UInt8.ofNat c.toNat
def hx (s : Str) : String := hexOrDash (ofStr s)
def arg (s : String) : Option Str := (bytesOfHex s).map toStr

def fnv1a64 (b : Bytes) : UInt64 :=
  b.foldl (fun h x => (h ^^^ x.toUInt64) * 1099511628211) 14695981039346656037

def hex16 (v : UInt64) : String :=
  String.ofList ((List.range 16).map fun i => hexDigit ((v.toNat / 16 ^ (15 - i)) % 16))

/-- contents up to 256 bytes in full, longer ones as length and FNV-1a hash -/
def contentStr (b : Bytes) : String :=
  if b.length ≤ 256 then hexOrDash b else s!"#{b.length}:{hex16 (fnv1a64 b)}"

/-- what the server holds under a name -/
def probe (s : Srv) (k : Key) : String :=
  match lookup s k with
  | none => "-"
  | some .dir => "d"
  | some (.file id) => "f:" ++ contentStr (content s id)

def renderKey (k : Key) : Str := render true k

def strLe : Str → Str → Bool
  | [], _ => true
  | _ :: _, [] => false
  | a :: as, b :: bs => if a.toNat < b.toNat then true else if a.toNat > b.toNat then false else strLe as bs

def tree (s : Srv) : String :=
  let es := (s.names.map fun ke => (renderKey ke.1, ke.1)).mergeSort fun a b => strLe a.1 b.1
  "tree=[" ++ ",".intercalate (es.map fun e => hx e.1 ++ ":" ++ probe s e.2) ++ "]"

def fsRes (e : Option SErr) : String := match e with | none => "ok" | some e => "err:" ++ e.tag

def infoRes (r : Except SErr Info) : String :=
  match r with
  | .error e => "err:" ++ e.tag
  | .ok i => s!"info size={i.size} dir={i.dir}"

def errTag (e : Option SErr) : String := match e with | none => "-" | some e => e.tag

/-- write-type calls: only `closed` is told apart from other errors -/
def wErrTag (e : Option SErr) : String :=
  match e with | none => "-" | some .closed => "closed" | some _ => "fail"

/-- proper ancestors of a key, root first -/
def ancestors (k : Key) : List Key := (List.range k.length).map fun n => k.take n

def isStrictPrefix (a b : Key) : Bool := a.isPrefixOf b && a != b

def openRes (s s' : Srv) (e : Option SErr) (k : Key) : String :=
  match e with
  | some e => s!"err:{e.tag} post={probe s' k}"
  | none => if s'.hs.length > s.hs.length then s!"h={s.hs.length} post={probe s' k}" else s!"err:fail post={probe s' k}"

/-- the permission requests a call added to the server's log -/
def chmodLog (s s' : Srv) : String :=
  let new := s'.chmods.drop s.chmods.length
  if new.isEmpty then "-" else "+".intercalate (new.map fun kp => s!"{hx (renderKey kp.1)}:{kp.2}")

def hContent (s : Srv) (i : Nat) : Bytes :=
  match s.hs[i]? with
  | none => []
  | some h => content s h.obj

def stepLine (s : Srv) (line : String) : Srv × String :=
  let toks := tokens line
  match toks with
  | ["case"] => ({}, "case")
  | ["snapshot"] => (s, tree s)
  | ["create", p] =>
    match arg p with
    | none => (s, "bad-op")
    | some p => let r := fsCreate s p; (r.1, openRes s r.1 r.2 (keyOf p))
  | ["open", p] =>
    match arg p with
    | none => (s, "bad-op")
    | some p => let r := fsOpen s p; (r.1, openRes s r.1 r.2 (keyOf p))
  | ["openfile", p, flag] =>
    match arg p, parseNat flag with
    | some p, some f =>
      if !flagInDomain f then (s, "skip")
      else
        let r := fsOpenFile s p f 420
        (r.1, openRes s r.1 r.2 (keyOf p) ++ " chmod=" ++ chmodLog s r.1)
    | _, _ => (s, if (parseInt flag).isSome then "skip" else "bad-op")
  | ["mkdir", p] =>
    match arg p with
    | none => (s, "bad-op")
    | some p => let r := fsMkdir s p 493; (r.1, s!"{fsRes r.2} pre={probe s (keyOf p)} post={probe r.1 (keyOf p)} chmod={chmodLog s r.1}")
  | ["mkdirall", p] =>
    match arg p with
    | none => (s, "bad-op")
    | some p =>
      let r := fsMkdirAll s p 493
      let k := keyOf p
      let anc := String.ofList ((ancestors k).map fun a =>
        match lookup r.1 a with | some .dir => '1' | none => '0' | some (.file _) => 'f')
      (r.1, s!"{fsRes r.2} pre={probe s k} post={probe r.1 k} anc={if anc.isEmpty then "-" else anc} chmod={chmodLog s r.1}")
  | ["remove", p] =>
    match arg p with
    | none => (s, "bad-op")
    | some p => let r := fsRemove s p; (r.1, s!"{fsRes r.2} pre={probe s (keyOf p)} post={probe r.1 (keyOf p)}")
  | ["rename", a, b] =>
    match arg a, arg b with
    | some a, some b =>
      let ka := keyOf a
      let kb := keyOf b
      if isStrictPrefix ka kb then (s, "skip")
      else
        let r := fsRename s a b
        (r.1, s!"{fsRes r.2} pre={probe s ka},{probe s kb} post={probe r.1 ka},{probe r.1 kb}")
    | _, _ => (s, "bad-op")
  | ["stat", p] =>
    match arg p with
    | none => (s, "bad-op")
    | some p => (s, s!"{infoRes (fsStat s p)} srv={probe s (keyOf p)}")
  | [op, h, x] =>
    match parseNat h with
    | none => (s, "bad-op")
    | some i =>
      if i ≥ s.hs.length then (s, "err:nohandle")
      else
        let pre := contentStr (hContent s i)
        match op with
        | "write" | "writestring" | "readfrom" =>     -- (readfrom: io.Copy(f, r), non-empty r that fits one buffer = Write)
          match bytesOfHex x with
          | none => (s, "bad-op")
          | some b =>
            let r := if op = "writestring" then fileWriteString s i b else fileWrite s i b
            match r.2 with
            | .n k e => (r.1, s!"n={k} err:{wErrTag e} pre={pre} post={contentStr (hContent r.1 i)}")
            | _ => (r.1, "bad-op")
        | "read" =>
          match parseNat x with
          | none => (s, "bad-op")
          | some n =>
            let r := fileRead s i n
            match r.2 with
            | .bytes b e => (r.1, s!"bytes={contentStr b} err:{errTag e} srv={pre}")
            | .undef => (r.1, "skip")
            | _ => (r.1, "bad-op")
        | "trunc" =>
          match parseInt x with
          | none => (s, "bad-op")
          | some n =>
            let r := fileTruncate s i n
            match r.2 with
            | .ok => (r.1, s!"ok pre={pre} post={contentStr (hContent r.1 i)}")
            | .err e => (r.1, s!"err:{e.tag} pre={pre} post={contentStr (hContent r.1 i)}")
            | _ => (r.1, "bad-op")
        | _ => (s, "bad-op")
  | [op, h, x, y] =>
    match parseNat h with
    | none => (s, "bad-op")
    | some i =>
      if i ≥ s.hs.length then (s, "err:nohandle")
      else
        let pre := contentStr (hContent s i)
        match op with
        | "writeat" =>
          match bytesOfHex x, parseInt y with
          | some b, some off =>
            let r := fileWriteAt s i b off
            match r.2 with
            | .n k e => (r.1, s!"n={k} err:{wErrTag e} pre={pre} post={contentStr (hContent r.1 i)}")
            | _ => (r.1, "bad-op")
          | _, _ => (s, "bad-op")
        | "readat" =>
          match parseNat x, parseInt y with
          | some n, some off =>
            let r := fileReadAt s i n off
            match r.2 with
            | .bytes b e => (r.1, s!"bytes={contentStr b} err:{errTag e} srv={pre}")
            | .undef => (r.1, "skip")
            | _ => (r.1, "bad-op")
          | _, _ => (s, "bad-op")
        | "seek" =>
          match parseInt x, parseNat y with
          | some off, some wh =>
            let r := fileSeek s i off wh
            match r.2 with
            | .pos p => (r.1, s!"pos={p} size={(hContent s i).length}")
            | .err e => (r.1, s!"err:{e.tag} size={(hContent s i).length}")
            | _ => (r.1, "bad-op")
          | _, _ => (s, "bad-op")
        | _ => (s, "bad-op")
  | [op, h] =>
    match parseNat h with
    | none => (s, "bad-op")
    | some i =>
      if i ≥ s.hs.length then (s, "err:nohandle")
      else
        match op with
        | "hstat" =>
          let r := fileStat s i
          match r.2 with
          | .info inf => (r.1, s!"{infoRes (.ok inf)} size={(hContent s i).length}")
          | .err e => (r.1, s!"err:{e.tag} size={(hContent s i).length}")
          | _ => (r.1, "bad-op")
        | "close" =>
          let r := fileClose s i
          match r.2 with
          | .ok => (r.1, "ok")
          | .err e => (r.1, "err:" ++ e.tag)
          | _ => (r.1, "bad-op")
        | "copyout" =>     -- io.Copy(w, f): Read until the end of the file; the final io.EOF is not an error of the copy
          let pre := contentStr (hContent s i)
          let r := fileRead s i (2 ^ 40)
          match r.2 with
          | .bytes b e => (r.1, s!"bytes={contentStr b} err:{if errTag e = "eof" then "-" else errTag e} srv={pre}")
          | .undef => (r.1, "skip")
          | _ => (r.1, "bad-op")
        | _ => (s, "bad-op")
  | _ => (s, "bad-op")

def init : Srv := {}

end AferoVerif.Engine.Sftp
