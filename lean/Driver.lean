/-
  driver <engine> : reads a script on stdin, prints one canonical result line per input line.
  Core-only, links as a lean_exe.
-/
import AferoVerif.Engine.MemFile
import AferoVerif.Engine.Contains
import AferoVerif.Engine.Path
import AferoVerif.Engine.MemFs
import AferoVerif.Engine.RoFs
import AferoVerif.Engine.CowFs
import AferoVerif.Engine.BpFs
import AferoVerif.Engine.ReFs
import AferoVerif.Engine.CacheFs
import AferoVerif.Engine.CopyFault
import AferoVerif.Engine.Archive
import AferoVerif.Engine.Sftp
import AferoVerif.Engine.Gcs
import AferoVerif.Engine.Walk
import AferoVerif.Engine.IOFS
import AferoVerif.Engine.TempFile
import AferoVerif.Engine.Conc
open AferoVerif

partial def loop {σ : Type} (h : IO.FS.Stream) (out : IO.FS.Stream) (step : σ → String → σ × String) (s : σ) : IO Unit := do
  let line ← h.getLine
  if line.isEmpty then return ()
  let line := line.trimAsciiEnd.toString
  let (s', o) := step s line
  out.putStrLn o
  loop h out step s'

def main (args : List String) : IO UInt32 := do
  let stdin ← IO.getStdin
  let stdout ← IO.getStdout
  match args with
  | ["memfile"] => loop stdin stdout Engine.MemFile.stepLine Engine.MemFile.init; return 0
  | ["contains"] => loop stdin stdout Engine.Contains.stepLine {}; return 0
  | ["path"] => loop stdin stdout Engine.Path.stepLine (); return 0
  | ["memfs"] => loop stdin stdout Engine.MemFs.stepLine MemFs.init; return 0
  | ["rofs"] => loop stdin stdout Engine.RoFs.stepLine {}; return 0
  | ["cowfs"] => loop stdin stdout Engine.CowFs.stepLine {}; return 0
  | ["bpfs"] => loop stdin stdout Engine.BpFs.stepLine {}; return 0
  | ["refs"] => loop stdin stdout Engine.ReFs.stepLine {}; return 0
  | ["cachefs"] => loop stdin stdout Engine.CacheFs.stepLine {}; return 0
  | ["copyfault"] => loop stdin stdout Engine.CopyFault.stepLine (); return 0
  | ["archive"] => loop stdin stdout Engine.Archive.stepLine Engine.Archive.init; return 0
  | ["sftp"] => loop stdin stdout Engine.Sftp.stepLine Engine.Sftp.init; return 0
  | ["gcs"] => loop stdin stdout Engine.Gcs.stepLine {}; return 0
  | ["walk"] => loop stdin stdout Engine.Walk.stepLine []; return 0
  | ["iofs"] => loop stdin stdout Engine.IOFS.stepLine {}; return 0
  | ["temp"] => loop stdin stdout Engine.TempFile.stepLine {}; return 0
  | ["conc"] => loop stdin stdout Engine.Conc.stepLine (); return 0
  | _ => IO.eprintln "usage: driver <engine>"; return 2
