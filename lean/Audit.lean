/-
  Audit: `lake env lean --run Audit.lean AferoVerif.Props.C02`
  Loads the compiled module, enumerates every theorem declared in it, the project lemmas
  (AferoVerif.*) each one transitively uses, and the axioms each depends on.
  Prints one JSON object. Fails (exit 1) if any axiom outside the allowed three appears.
-/
import Lean
open Lean

def allowed : List Name := [``propext, ``Classical.choice, ``Quot.sound]

partial def usedProjectThms (env : Environment) (n : Name) (seen : NameSet) : NameSet := Id.run do
  let mut seen := seen
  match env.find? n with
  | none => return seen
  | some ci =>
    let deps := (ci.type.getUsedConstants ++ ((ci.value? (allowOpaque := true)).map (·.getUsedConstants)).getD #[])
    for d in deps do
      if seen.contains d then continue
      if (`AferoVerif).isPrefixOf d then
        seen := seen.insert d
        seen := usedProjectThms env d seen
    return seen

/-- every axiom reachable from `n` (own traversal of the kernel environment) -/
partial def axiomsOf (env : Environment) (n : Name) (st : NameSet × NameSet) : NameSet × NameSet := Id.run do
  let (seen, axs) := st
  if seen.contains n then return (seen, axs)
  let mut seen := seen.insert n
  let mut axs := axs
  match env.find? n with
  | none => return (seen, axs)
  | some ci =>
    if let .axiomInfo _ := ci then axs := axs.insert n
    let mut deps := ci.type.getUsedConstants
    if let some v := ci.value? (allowOpaque := true) then deps := deps ++ v.getUsedConstants
    if let .inductInfo v := ci then deps := deps ++ v.ctors.toArray
    for d in deps do
      (seen, axs) := axiomsOf env d (seen, axs)
    return (seen, axs)

/-- compiler-generated equation / unfolding lemmas are not proof obligations of ours -/
def isAuto (n : Name) : Bool :=
  match n with
  | .str _ s => s.startsWith "eq_" || s.startsWith "match_" || s == "sizeOf_spec" || s.startsWith "injEq" || s.startsWith "inj" || s.startsWith "noConfusion"
  | _ => false

def jsonStrList (l : List String) : String :=
  "[" ++ ", ".intercalate (l.map fun s => "\"" ++ s ++ "\"") ++ "]"

unsafe def main (args : List String) : IO UInt32 := do
  let modName := args.head!.toName
  initSearchPath (← findSysroot)
  enableInitializersExecution
  let env ← importModules #[{ module := modName }] {}
  let some modIdx := env.getModuleIdx? modName | throw (IO.userError "module not found")
  let mut thms : Array Name := #[]
  for (n, ci) in env.constants.toList do
    if env.getModuleIdxFor? n == some modIdx then
      if let .thmInfo _ := ci then
        if !n.isInternal && !isAuto n then thms := thms.push n
  let thmsSorted := thms.qsort (fun a b => a.toString < b.toString)
  let mut bad := false
  let mut items : List String := []
  let mut lemmaSet : NameSet := {}
  let mut axSet : NameSet := {}
  for t in thmsSorted do
    let axs := (axiomsOf env t ({}, {})).2.toList
    for a in axs do
      axSet := axSet.insert a
      if !allowed.contains a then bad := true
    lemmaSet := usedProjectThms env t lemmaSet
    items := items ++ ["{\"theorem\": \"" ++ t.toString ++ "\", \"axioms\": " ++ jsonStrList (axs.map toString) ++ "}"]
  -- project lemmas (theorems only) used by the property theorems, not themselves in the property module
  let mut lemmas : List String := []
  for l in lemmaSet.toList do
    if let some (.thmInfo _) := env.find? l then
      if env.getModuleIdxFor? l != some modIdx && !l.isInternal && !isAuto l then
        for a in (axiomsOf env l ({}, {})).2.toList do
          axSet := axSet.insert a
          if !allowed.contains a then bad := true
        lemmas := lemmas ++ [l.toString]
  IO.println ("{\"module\": \"" ++ modName.toString ++ "\", \"ok\": " ++ (if bad then "false" else "true") ++
    ", \"axioms\": " ++ jsonStrList (axSet.toList.map toString) ++
    ", \"lemmas\": " ++ jsonStrList lemmas ++
    ", \"theorems\": [" ++ ", ".intercalate items ++ "]}")
  return (if bad then 1 else 0)
