import AferoVerif.Props.C01
import AferoVerif.Props.C02
import AferoVerif.Props.C08
import AferoVerif.Props.C17
import AferoVerif.Engine.MemFile
import AferoVerif.Engine.Contains
import AferoVerif.Engine.Path
import AferoVerif.Engine.MemFs
