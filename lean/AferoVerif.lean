import AferoVerif.Props.C02
import AferoVerif.Engine.MemFile
