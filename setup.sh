#!/bin/sh
# Build the framework from files on disk only (offline): Lean library + model driver, Go harness.
set -e
cd "$(dirname "$0")"
export GOFLAGS=-mod=mod GOPROXY=off GOSUMDB=off GOTOOLCHAIN=local
mkdir -p .build evidence replays
cp /repo/go.sum harness/go.sum
(cd harness && go run ./cmd/facts /repo ../lean/AferoVerif/Generated/Facts.lean)
(cd lean && lake build AferoVerif driver)
(cd harness && go build -o ../.build/h ./cmd/h)
echo setup-ok
