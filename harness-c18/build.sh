#!/bin/sh
# build.sh <repo-dir> <out-binary>
#
# Builds the C18 harness (harness/cmd/h18) against the given afero tree with one *virtual* file
# added to package afero: <repo-dir>/zz_verif_hooks.go (source: harness/overlay/zz_verif_hooks.go,
# `//go:build verif`), which exposes the unexported state of nextRandom to the harness.
# Nothing is written below <repo-dir> or below harness/: the overlay JSON, and a copy of the
# harness go.mod whose `replace` points at <repo-dir>, live in a temp dir.  Offline.
set -eu
[ $# -eq 2 ] || { echo "usage: $0 <repo-dir> <out-binary>" >&2; exit 2; }
HERE=$(cd "$(dirname "$0")" && pwd)
REPO=$(cd "$1" && pwd)
OUT=$2
case "$OUT" in /*) ;; *) OUT="$(pwd)/$OUT" ;; esac
HARNESS="$HERE/../harness"
HOOK="$HARNESS/overlay/zz_verif_hooks.go"
[ -f "$HOOK" ] || { echo "missing $HOOK" >&2; exit 2; }
[ -f "$REPO/ioutil.go" ] || { echo "$REPO is not an afero tree" >&2; exit 2; }
TMP=$(mktemp -d "${TMPDIR:-/tmp}/c18-overlay.XXXXXX")
trap 'rm -rf "$TMP"' EXIT
printf '{"Replace":{"%s/zz_verif_hooks.go":"%s"}}\n' "$REPO" "$HOOK" > "$TMP/overlay.json"
# the harness module with its afero dependency redirected to <repo-dir>
sed "s#^replace github.com/spf13/afero => .*#replace github.com/spf13/afero => $REPO#" "$HARNESS/go.mod" > "$TMP/go.mod"
grep -q "=> $REPO\$" "$TMP/go.mod" || { echo "harness/go.mod has no replace line for afero" >&2; exit 2; }
cp "$REPO/go.sum" "$TMP/go.sum"
export GOFLAGS=-mod=mod GOPROXY=off GOSUMDB=off GOTOOLCHAIN=local
cd "$HARNESS"
go build -modfile "$TMP/go.mod" -tags verif -overlay "$TMP/overlay.json" -o "$OUT" ./cmd/h18
