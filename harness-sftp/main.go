// sftpdrv C19 --tier quick|thorough --seed N --driver path --known path --out result.json [--replay file] [--repo dir]
//
// The C19 harness.  It is compiled *inside* the sftpfs module tree through a build overlay
// (see build.sh): sftpfs is its own Go module, so the generic harness module cannot import it.
// Flags and the result JSON are those of harness/cmd/h.
package main

import (
	"encoding/json"
	"flag"
	"fmt"
	"os"

	"github.com/spf13/afero/sftpfs/verifcmd/corr"
)

func main() {
	if len(os.Args) < 2 {
		fmt.Fprintln(os.Stderr, "usage: sftpdrv C19 [flags]")
		os.Exit(2)
	}
	id := os.Args[1]
	fs := flag.NewFlagSet("sftpdrv", flag.ExitOnError)
	tier := fs.String("tier", "quick", "")
	seed := fs.Uint64("seed", 1, "")
	driver := fs.String("driver", "/verif/lean/.lake/build/bin/driver", "")
	known := fs.String("known", "/verif/known-findings.json", "")
	out := fs.String("out", "", "")
	replay := fs.String("replay", "", "")
	_ = fs.String("repo", "/repo", "") // accepted for compatibility; the tree is fixed at build time
	nomodel := fs.Bool("nomodel", false, "skip the Lean driver (oracle only; for debugging)")
	fs.Parse(os.Args[2:])
	if id != "C19" {
		fmt.Fprintln(os.Stderr, "no engine for", id)
		os.Exit(2)
	}
	e := C19()
	if *nomodel {
		e.DriverEngine = ""
	}
	var rp *corr.Case
	if *replay != "" {
		b, err := os.ReadFile(*replay)
		if err != nil {
			fmt.Fprintln(os.Stderr, err)
			os.Exit(2)
		}
		var r struct {
			Case []string `json:"case"`
		}
		if err := json.Unmarshal(b, &r); err != nil || len(r.Case) == 0 {
			fmt.Fprintln(os.Stderr, "replay file has no case")
			os.Exit(2)
		}
		rp = &corr.Case{Lines: r.Case}
	}
	res := corr.Run(e, *tier, *seed, *driver, *known, rp)
	if *out != "" {
		corr.WriteResult(*out, res)
	} else {
		b, _ := json.MarshalIndent(res, "", " ")
		fmt.Println(string(b))
	}
}
