package main

// The SFTP server the C19 harness talks to: pkg/sftp's request server over io.Pipe (no network)
// with the library's own in-memory backend `sftp.InMemHandler()`.  Two independent client
// connections are attached to one backend: `c` is handed to sftpfs, `c2` is used by the harness
// alone to look at what the server holds (never through sftpfs).
//
// The example backend is not a complete server.  Three of its gaps would either kill the process
// or make `Fs.Mkdir` fail on every call, so a thin shim (`conforming`) closes them; everything
// else is the library's code:
//   * SETSTAT on a directory: the backend answers "invalid argument" (it opens the path as a
//     file).  A conforming server accepts chmod on a directory; the backend stores no modes at
//     all, so the shim answers OK and only records which permission was asked for.
//   * SETSTAT with a size that is negative as int64 → the backend slices out of range and the
//     whole process dies.  The shim answers with an error.
//   * WRITE at an offset that is negative as int64 → same crash; the shim answers with an error.

import (
	"errors"
	"fmt"
	"io"
	"os"
	"path"
	"sort"
	"strings"
	"sync"

	"github.com/pkg/sftp"
)

type pipeRWC struct {
	io.Reader
	io.WriteCloser
}

func (p pipeRWC) Close() error { return p.WriteCloser.Close() }

// conforming wraps the four handler interfaces of the in-memory backend.
type conforming struct {
	in sftp.Handlers

	mu     sync.Mutex
	chmods []string // every permission change the server was asked for: "<hex name>:<perm>"
}

// takeChmods returns and clears the log of permission requests.
func (s *conforming) takeChmods() string {
	s.mu.Lock()
	defer s.mu.Unlock()
	out := strings.Join(s.chmods, "+")
	s.chmods = nil
	if out == "" {
		return "-"
	}
	return out
}

var errNegative = errors.New("negative size or offset")

func (s *conforming) isDir(p string) bool {
	la, err := s.in.FileList.Filelist(sftp.NewRequest("Stat", p))
	if err != nil {
		return false
	}
	var fi [1]os.FileInfo
	n, _ := la.ListAt(fi[:], 0)
	return n == 1 && fi[0].IsDir()
}

func (s *conforming) Filecmd(r *sftp.Request) error {
	if r.Method == "Setstat" {
		if r.AttrFlags().Size && int64(r.Attributes().Size) < 0 {
			return errNegative
		}
		var err error
		if !s.isDir(r.Filepath) {
			err = s.in.FileCmd.Filecmd(r)
		}
		if err == nil && r.AttrFlags().Permissions {
			// the backend stores no modes; the shim at least records what was asked for
			s.mu.Lock()
			s.chmods = append(s.chmods, fmt.Sprintf("%s:%d", hexS(r.Filepath), r.Attributes().Mode&0o7777))
			s.mu.Unlock()
		}
		return err
	}
	return s.in.FileCmd.Filecmd(r)
}

func (s *conforming) PosixRename(r *sftp.Request) error {
	return s.in.FileCmd.(sftp.PosixRenameFileCmder).PosixRename(r)
}

type guardedRW struct{ in sftp.WriterAtReaderAt }

func (g guardedRW) ReadAt(b []byte, off int64) (int, error) { return g.in.ReadAt(b, off) }
func (g guardedRW) WriteAt(b []byte, off int64) (int, error) {
	if off < 0 {
		return 0, errNegative
	}
	return g.in.WriteAt(b, off)
}

type guardedW struct{ in io.WriterAt }

func (g guardedW) WriteAt(b []byte, off int64) (int, error) {
	if off < 0 {
		return 0, errNegative
	}
	return g.in.WriteAt(b, off)
}

func (s *conforming) Fileread(r *sftp.Request) (io.ReaderAt, error) { return s.in.FileGet.Fileread(r) }

func (s *conforming) Filewrite(r *sftp.Request) (io.WriterAt, error) {
	w, err := s.in.FilePut.Filewrite(r)
	if err != nil {
		return nil, err
	}
	return guardedW{w}, nil
}

func (s *conforming) OpenFile(r *sftp.Request) (sftp.WriterAtReaderAt, error) {
	rw, err := s.in.FilePut.(sftp.OpenFileWriter).OpenFile(r)
	if err != nil {
		return nil, err
	}
	return guardedRW{rw}, nil
}

func (s *conforming) Filelist(r *sftp.Request) (sftp.ListerAt, error) { return s.in.FileList.Filelist(r) }
func (s *conforming) Lstat(r *sftp.Request) (sftp.ListerAt, error) {
	return s.in.FileList.(sftp.LstatFileLister).Lstat(r)
}

// world is one fresh server with its two client connections.
type world struct {
	c, c2 *sftp.Client
	srv   *conforming
}

func connect(h sftp.Handlers) *sftp.Client {
	cr, sw := io.Pipe()
	sr, cw := io.Pipe()
	srv := sftp.NewRequestServer(pipeRWC{sr, sw}, h)
	go func() { _ = srv.Serve(); _ = srv.Close() }()
	c, err := sftp.NewClientPipe(cr, cw)
	if err != nil {
		panic("sftp client: " + err.Error())
	}
	return c
}

func newWorld() *world {
	s := &conforming{in: sftp.InMemHandler()}
	h := sftp.Handlers{FileGet: s, FilePut: s, FileCmd: s, FileList: s}
	return &world{c: connect(h), c2: connect(h), srv: s}
}

func (w *world) close() {
	_ = w.c.Close()
	_ = w.c2.Close()
}

// ---- looking at the server through the second connection -------------------------------------

// readAll returns every byte the server holds for an open (second-connection) handle.
func readAll(f *sftp.File) []byte {
	var out []byte
	buf := make([]byte, 32768)
	for {
		n, err := f.ReadAt(buf, int64(len(out)))
		out = append(out, buf[:n]...)
		if err != nil || n == 0 {
			return out
		}
	}
}

// probe describes what the server holds under a name: "-" nothing, "d" a directory,
// "f:<content>" a regular file, "?" anything else.
func (w *world) probe(name string) string {
	fi, err := w.c2.Lstat(name)
	if err != nil {
		if errors.Is(err, os.ErrNotExist) {
			return "-"
		}
		return "?"
	}
	if fi.IsDir() {
		return "d"
	}
	f, err := w.c2.Open(name)
	if err != nil {
		return "?"
	}
	defer f.Close()
	return "f:" + contentStr(readAll(f))
}

// tree lists the whole server tree (sorted by path).
func (w *world) tree() []string {
	var out []string
	var walk func(dir string)
	walk = func(dir string) {
		ents, err := w.c2.ReadDir(dir)
		if err != nil {
			out = append(out, hexS(dir)+":?")
			return
		}
		for _, e := range ents {
			p := path.Join(dir, e.Name())
			if e.IsDir() {
				out = append(out, p+"\x00d")
				walk(p)
			} else {
				out = append(out, p+"\x00"+w.probe(p))
			}
		}
	}
	walk("/")
	sort.Strings(out)
	return out
}
