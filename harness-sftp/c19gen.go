package main

// Case generators for C19: corpus (one case per suspected defect), exhaustive small tables,
// seeded random programs.  A light shadow of the name space (which cleaned names are files or
// directories) only *biases* the random generator towards calls that succeed; it plays no part in
// any verdict.

import (
	"fmt"
	"sort"
	"strings"

	"github.com/spf13/afero/sftpfs/verifcmd/corr"
)

func mk(l ...string) corr.Case { return corr.Case{Lines: append([]string{"case"}, l...)} }

func hx(s string) string { return corr.HexS(s) }

func seqBytes(n int, base byte) []byte {
	b := make([]byte, n)
	for i := range b {
		b[i] = base + byte(i%200)
	}
	return b
}

func c19Corpus() []corr.Case {
	big := seqBytes(40000, 1) // more than one SFTP packet (32 KiB)
	return []corr.Case{
		// D1: File.WriteAt must store the bytes at the offset and report the count
		mk("create "+hx("/f"), "write 0 68656c6c6f", "writeat 0 5859 1", "readat 0 8 0", "seek 0 0 1", "writeat 0 5a 7", "readat 0 9 0", "hstat 0", "close 0", "writeat 0 41 0"),
		// D2: MkdirAll over a regular file must not report success
		mk("create "+hx("/f"), "close 0", "mkdirall "+hx("/f"), "stat "+hx("/f"), "mkdirall "+hx("/f/x"), "snapshot"),
		// MkdirAll: nested, relative, doubled and trailing separators, dot segments
		mk("mkdirall "+hx("/a/b/c"), "stat "+hx("/a"), "stat "+hx("/a/b"), "stat "+hx("/a/b/c"), "mkdirall "+hx("p/q//r/"),
			"mkdirall "+hx("/m/./n/../o"), "mkdirall "+hx(""), "mkdirall "+hx("/"), "mkdirall "+hx("/a/b/c"), "snapshot"),
		// Mkdir (+Chmod): fresh, existing, missing parent, below a file
		mk("mkdir "+hx("/d"), "mkdir "+hx("/d"), "mkdir "+hx("/x/y"), "create "+hx("/d/f"), "mkdir "+hx("/d/f/z"), "mkdir "+hx("/d/f"), "stat "+hx("/d"), "snapshot"),
		// Write / WriteString / Seek / Truncate / Read / ReadAt around the end of the file
		// io.Copy out of a handle, then the same handle goes on: it stands at the end
		mk("create "+hx("/f"), "write 0 30313233343536373839", "seek 0 3 0", "copyout 0", "read 0 4", "write 0 4142", "readat 0 20 0", "seek 0 0 0", "copyout 0", "copyout 0", "seek 0 0 1", "close 0", "copyout 0"),
		// io.Copy into a handle (a reader that hands its last bytes out together with io.EOF)
		mk("create "+hx("/f"), "readfrom 0 0102030405", "readfrom 0 06", "seek 0 1 0", "readfrom 0 5a5b", "readat 0 20 0", "hstat 0", "close 0", "stat "+hx("/f"), "snapshot"),
		mk("create "+hx("/f"), "write 0 0102030405", "writestring 0 0607", "seek 0 2 2", "write 0 5a", "readat 0 20 0", "trunc 0 3", "trunc 0 6",
			"seek 0 0 0", "read 0 4", "read 0 4", "read 0 4", "readat 0 3 100", "readat 0 0 100", "seek 0 -1 0", "seek 0 -9 1", "seek 0 0 5", "hstat 0", "stat "+hx("/f")),
		// handles survive rename and remove; Stat/Truncate through the handle go by name
		mk("mkdir "+hx("/d"), "create "+hx("/d/f"), "write 0 616263", "rename "+hx("/d/f")+" "+hx("/d/g"), "write 0 64", "hstat 0", "trunc 0 1", "seek 0 0 2",
			"readat 0 8 0", "stat "+hx("/d/g"), "remove "+hx("/d"), "remove "+hx("/d/g"), "write 0 65", "readat 0 8 0", "remove "+hx("/d"), "snapshot"),
		// closed handle
		mk("create "+hx("/f"), "write 0 6162", "close 0", "close 0", "write 0 63", "writestring 0 63", "writeat 0 63 0", "read 0 1", "readat 0 1 0", "seek 0 0 0", "trunc 0 0", "hstat 0", "stat "+hx("/f")),
		// rename: onto an existing name, of a missing name, of a populated directory
		mk("mkdirall "+hx("/a/b"), "create "+hx("/a/b/f"), "write 0 6162", "create "+hx("/g"), "rename "+hx("/g")+" "+hx("/a"), "rename "+hx("/nope")+" "+hx("/z"),
			"rename "+hx("/a")+" "+hx("/e"), "stat "+hx("/e/b/f"), "rename "+hx("/g")+" "+hx("/g"), "rename "+hx("/g")+" "+hx("/q/g"), "rename "+hx("/g")+" "+hx("/e/b/f/x"), "snapshot"),
		// read-only, write-only and read-write opens
		mk("create "+hx("/f"), "write 0 616263646566", "close 0", "open "+hx("/f"), "write 1 58", "writeat 1 58 0", "read 1 2", "openfile "+hx("/f")+" 1", "write 2 59", "writeat 2 5a 3",
			"read 2 1", "openfile "+hx("/f")+" 2", "readat 3 8 0", "openfile "+hx("/f")+" 514", "hstat 4", "openfile "+hx("/f")+" 194", "openfile "+hx("/n")+" 2", "openfile "+hx("/n")+" 66", "snapshot"),
		// a payload larger than one packet, written, overwritten in the middle and read back
		mk("create "+hx("/f"), "write 0 "+corr.Hex(big), "writeat 0 "+corr.Hex(seqBytes(33000, 7))+" 20000", "readat 0 40 19990", "readat 0 60000 0", "hstat 0", "trunc 0 32769", "readat 0 4 32766"),
		// negative offsets and sizes are refused, nothing is stored
		mk("create "+hx("/f"), "write 0 616263", "writeat 0 58 -1", "readat 0 2 -1", "trunc 0 -1", "readat 0 8 0"),
	}
}

// ---- exhaustive tables -------------------------------------------------------------------------

func c19Exhaustive(tier string) []corr.Case {
	var cases []corr.Case
	maxSize := 3
	if tier == "thorough" {
		maxSize = 5
	}
	f := hx("/f")
	pay := []byte{0xa1, 0xa2, 0xa3, 0xa4}
	// (size, offset, length) for every write-type and read-type call
	for size := 0; size <= maxSize; size++ {
		pre := []string{"create " + f, "write 0 " + corr.Hex(seqBytes(size, 0x11))}
		for off := -1; off <= size+3; off++ {
			for ln := 0; ln <= 3; ln++ {
				p := corr.Hex(pay[:ln])
				ops := [][]string{
					{fmt.Sprintf("writeat 0 %s %d", p, off)},
					{fmt.Sprintf("seek 0 %d 0", off), "write 0 " + p},
					{fmt.Sprintf("seek 0 %d 0", off), "writestring 0 " + p},
					{fmt.Sprintf("readat 0 %d %d", ln, off)},
					{fmt.Sprintf("seek 0 %d 0", off), fmt.Sprintf("read 0 %d", ln)},
				}
				if ln == 0 {
					ops = append(ops, []string{fmt.Sprintf("trunc 0 %d", off)})
					for wh := 0; wh <= 3; wh++ {
						ops = append(ops, []string{"seek 0 1 0", fmt.Sprintf("seek 0 %d %d", off-2, wh)})
					}
				}
				for _, op := range ops {
					l := append(append([]string{}, pre...), op...)
					l = append(l, "seek 0 0 1", "readat 0 16 0", "hstat 0")
					cases = append(cases, mk(l...))
				}
			}
		}
	}
	// open flags × what the name is
	targets := map[string][]string{
		"absent":         nil,
		"file":           {"create " + hx("/t"), "write 0 717273", "close 0"},
		"dir":            {"mkdir " + hx("/t")},
		"parent-missing": nil,
		"parent-file":    {"create " + hx("/p"), "close 0"},
	}
	tnames := []string{"absent", "file", "dir", "parent-missing", "parent-file"}
	for _, tn := range tnames {
		name := "/t"
		if tn == "parent-missing" {
			name = "/q/t"
		} else if tn == "parent-file" {
			name = "/p/t"
		}
		for acc := 0; acc <= 2; acc++ {
			for bits := 0; bits < 16; bits++ {
				flag := acc
				if bits&8 != 0 {
					flag |= oAPPEND
				}
				if bits&1 != 0 {
					flag |= oCREATE
				}
				if bits&2 != 0 {
					flag |= oEXCL
				}
				if bits&4 != 0 {
					flag |= oTRUNC
				}
				l := append([]string{}, targets[tn]...)
				h := 0
				if tn == "file" || tn == "parent-file" {
					h = 1
				}
				l = append(l, fmt.Sprintf("openfile %s %d", hx(name), flag))
				if bits&8 != 0 {
					// a handle opened with O_APPEND reads from the start like any other
					l = append(l, fmt.Sprintf("seek %d 0 1", h), fmt.Sprintf("read %d 2", h))
				}
				l = append(l,
					fmt.Sprintf("write %d 4142", h), fmt.Sprintf("writeat %d 43 4", h), fmt.Sprintf("readat %d 8 0", h),
					fmt.Sprintf("hstat %d", h), fmt.Sprintf("close %d", h), "snapshot")
				cases = append(cases, mk(l...))
			}
		}
		for _, op := range []string{"create", "open", "mkdir", "mkdirall", "remove", "stat"} {
			l := append([]string{}, targets[tn]...)
			l = append(l, op+" "+hx(name), "snapshot")
			cases = append(cases, mk(l...))
		}
	}
	// MkdirAll / Mkdir / Stat over every spelling, on four initial trees
	segs := []string{"a", "b", "", ".", ".."}
	maxSeg := 3
	if tier == "thorough" {
		maxSeg = 4
	}
	var spellings []string
	var rec func(cur []string)
	rec = func(cur []string) {
		if len(cur) > 0 {
			j := strings.Join(cur, "/")
			spellings = append(spellings, j, "/"+j)
		}
		if len(cur) == maxSeg {
			return
		}
		for _, s := range segs {
			rec(append(append([]string{}, cur...), s))
		}
	}
	rec(nil)
	spellings = append(spellings, "")
	seen := map[string]bool{}
	var uniq []string
	for _, s := range spellings {
		if !seen[s] {
			seen[s] = true
			uniq = append(uniq, s)
		}
	}
	sort.Strings(uniq)
	trees := [][]string{
		nil,
		{"mkdir " + hx("/a")},
		{"create " + hx("/a"), "close 0"},
		{"mkdir " + hx("/a"), "create " + hx("/a/b"), "close 0"},
	}
	for _, tr := range trees {
		for _, sp := range uniq {
			l := append([]string{}, tr...)
			l = append(l, "mkdirall "+hx(sp), "stat "+hx(sp), "snapshot")
			cases = append(cases, mk(l...))
		}
	}
	for _, sp := range uniq {
		if tier != "thorough" && strings.Count(sp, "/") > 2 {
			continue
		}
		cases = append(cases, mk("mkdir "+hx("/a"), "mkdir "+hx(sp), "create "+hx(sp), "remove "+hx(sp), "snapshot"))
	}
	// names with a backslash next to the same names with a separator
	cases = append(cases, mk("mkdir "+hx("/d"), "create "+hx("/d/f"), "write 0 6669727374", "close 0", "create "+hx("/d\\f"), "write 1 7365636f6e64", "close 1",
		"stat "+hx("/d/f"), "stat "+hx("/d\\f"), "mkdir "+hx("/d\\sub"), "stat "+hx("/d/sub"), "remove "+hx("/d\\f"), "stat "+hx("/d/f"), "snapshot"))
	// rename and remove over name classes
	setup := []string{"mkdirall " + hx("/d/e"), "create " + hx("/d/e/f"), "write 0 6162", "create " + hx("/g"), "write 1 63", "mkdir " + hx("/m")}
	names := []string{"/d", "/d/e", "/d/e/f", "/g", "/m", "/nope", "/nope/x", "/g/x", "/", "d//e/", "/m/../g", "/d\\e", "/d/e\\f"}
	for _, a := range names {
		cases = append(cases, mk(append(append([]string{}, setup...), "remove "+hx(a), "snapshot", "readat 0 4 0", "hstat 0", "write 0 7a", "readat 0 4 0")...))
		for _, b := range names {
			cases = append(cases, mk(append(append([]string{}, setup...), "rename "+hx(a)+" "+hx(b), "snapshot", "write 0 7a", "readat 0 4 0", "hstat 0", "trunc 1 0", "snapshot")...))
		}
	}
	return cases
}

// ---- random programs ---------------------------------------------------------------------------

type shadow struct {
	ents map[string]byte // cleaned name -> 'd' | 'f'
	nh   int
}

func (s *shadow) kind(k string) byte {
	if k == "/" {
		return 'd'
	}
	return s.ents[k]
}

func parentOf(k string) string {
	i := strings.LastIndexByte(k, '/')
	if i <= 0 {
		return "/"
	}
	return k[:i]
}

// (a backslash is an ordinary character of a name on the server: "/a\\b" is an entry of the root, not /a/b)
var baseNames = []string{"/a", "/a/b", "/a/b/c", "/a/f", "/d", "/d/f", "/f", "/a/b/g", "/d/e/h", "/x y", "/a/é", "/a\\b", "/d\\f", "/a/b\\c"}

func spell(r *corr.Rand, p string) string {
	switch r.Intn(12) {
	case 0:
		return strings.TrimPrefix(p, "/")
	case 1:
		return p + "/"
	case 2:
		return strings.Replace(p, "/", "//", 1)
	case 3:
		return strings.Replace(p, "/", "/./", 1)
	case 4:
		return "/zz/.." + p
	case 5:
		return p + "/."
	}
	return p
}

func payload(r *corr.Rand, n int) []byte {
	b := make([]byte, n)
	for i := range b {
		b[i] = byte(1 + r.Intn(250))
	}
	return b
}

func offNear(r *corr.Rand, L int64) int64 {
	c := []int64{-1, 0, 0, 1, L - 1, L, L, L + 1, L + 3, 2 * L, L / 2}
	if r.Chance(15) {
		return int64(r.Intn(24)) - 1
	}
	return corr.Pick(r, c)
}

func c19Random(r *corr.Rand, tier string) []corr.Case {
	n := 700
	if tier == "thorough" {
		n = 25000
	}
	cases := make([]corr.Case, 0, n)
	// corr.NewRand(seed) and corr.NewRand(seed+1) produce the same stream shifted by one output;
	// re-seeding from the first output makes the case lists of neighbouring seeds unrelated
	r = corr.NewRand(r.U64() ^ 0xC19C19)
	for i := 0; i < n; i++ {
		rr := r.Fork()
		sh := &shadow{ents: map[string]byte{}}
		lines := []string{}
		add := func(l string) { lines = append(lines, l) }
		name := func() string { return corr.Pick(rr, baseNames) }
		var L int64 // rough size of the files being written (bias only)
		steps := 6 + rr.Intn(34)
		for s := 0; s < steps; s++ {
			k := rr.Intn(100)
			switch {
			case k < 8:
				p := name()
				add("mkdirall " + hx(spell(rr, p)))
				if sh.kind(p) == 0 {
					for q := p; q != "/"; q = parentOf(q) {
						if sh.kind(q) == 0 {
							sh.ents[q] = 'd'
						}
					}
				}
			case k < 12:
				p := name()
				add("mkdir " + hx(spell(rr, p)))
				if sh.kind(p) == 0 && sh.kind(parentOf(p)) == 'd' {
					sh.ents[p] = 'd'
				}
			case k < 22:
				p := name()
				if sh.kind(parentOf(p)) != 'd' && rr.Chance(70) {
					add("mkdirall " + hx(parentOf(p)))
					for q := parentOf(p); q != "/"; q = parentOf(q) {
						if sh.kind(q) == 0 {
							sh.ents[q] = 'd'
						}
					}
				}
				add("create " + hx(spell(rr, p)))
				if sh.kind(parentOf(p)) == 'd' && sh.kind(p) != 'd' {
					sh.ents[p] = 'f'
					sh.nh++
				}
			case k < 27:
				p := name()
				flag := rr.Intn(3)
				if rr.Chance(40) {
					flag |= oCREATE
				}
				if rr.Chance(15) {
					flag |= oEXCL
				}
				if rr.Chance(12) {
					flag |= oAPPEND
				}
				if rr.Chance(20) {
					flag |= oTRUNC
				}
				if rr.Chance(50) {
					add("open " + hx(spell(rr, p)))
					flag = 0
				} else {
					add(fmt.Sprintf("openfile %s %d", hx(spell(rr, p)), flag))
				}
				switch {
				case sh.kind(p) == 'f' && flag&(oCREATE|oEXCL) != oCREATE|oEXCL:
					sh.nh++
				case sh.kind(p) == 0 && flag&oCREATE != 0 && sh.kind(parentOf(p)) == 'd':
					sh.ents[p] = 'f'
					sh.nh++
				}
			case k < 31:
				add("stat " + hx(spell(rr, name())))
			case k < 35:
				p := name()
				add("remove " + hx(spell(rr, p)))
				empty := true
				for q := range sh.ents {
					if parentOf(q) == p {
						empty = false
					}
				}
				if sh.kind(p) == 'f' || (sh.kind(p) == 'd' && empty) {
					delete(sh.ents, p)
				}
			case k < 40:
				a, b := name(), name()
				add("rename " + hx(spell(rr, a)) + " " + hx(spell(rr, b)))
				if sh.kind(a) != 0 && sh.kind(b) == 0 && sh.kind(parentOf(b)) == 'd' && !strictPrefix(a, b) {
					moved := map[string]byte{}
					for q, v := range sh.ents {
						if q == a || strictPrefix(a, q) {
							moved[b+q[len(a):]] = v
							delete(sh.ents, q)
						}
					}
					for q, v := range moved {
						sh.ents[q] = v
					}
				}
			case k < 42:
				add("snapshot")
			default:
				if sh.nh == 0 {
					p := name()
					add("mkdirall " + hx(parentOf(p)))
					for q := parentOf(p); q != "/"; q = parentOf(q) {
						if sh.kind(q) == 0 {
							sh.ents[q] = 'd'
						}
					}
					add("create " + hx(p))
					if sh.kind(p) != 'd' && sh.kind(parentOf(p)) == 'd' {
						sh.ents[p] = 'f'
						sh.nh++
					}
					continue
				}
				h := rr.Intn(sh.nh)
				if rr.Chance(60) {
					h = sh.nh - 1
				}
				switch m := rr.Intn(100); {
				case m < 18:
					b := payload(rr, rr.Intn(7))
					add(fmt.Sprintf("write %d %s", h, corr.Hex(b)))
					L += int64(len(b))
				case m < 24:
					b := payload(rr, rr.Intn(7))
					if len(b) > 0 && rr.Chance(40) {
						add(fmt.Sprintf("readfrom %d %s", h, corr.Hex(b))) // io.Copy into the handle (never empty: an empty copy makes no call at all)
					} else {
						add(fmt.Sprintf("writestring %d %s", h, corr.Hex(b)))
					}
					L += int64(len(b))
				case m < 42:
					add(fmt.Sprintf("writeat %d %s %d", h, corr.Hex(payload(rr, rr.Intn(7))), offNear(rr, L)))
				case m < 54:
					if rr.Chance(12) {
						add(fmt.Sprintf("copyout %d", h))
					} else {
						add(fmt.Sprintf("read %d %d", h, rr.Intn(9)))
					}
				case m < 68:
					add(fmt.Sprintf("readat %d %d %d", h, rr.Intn(9), offNear(rr, L)))
				case m < 82:
					add(fmt.Sprintf("seek %d %d %d", h, offNear(rr, L)-int64(rr.Intn(2))*L, rr.Intn(3)))
				case m < 90:
					nn := offNear(rr, L)
					add(fmt.Sprintf("trunc %d %d", h, nn))
					if nn >= 0 {
						L = nn
					}
				case m < 95:
					add(fmt.Sprintf("hstat %d", h))
				case m < 97 && s > steps/2:
					add(fmt.Sprintf("close %d", h))
				default:
					add(fmt.Sprintf("readat %d 64 0", h))
				}
			}
		}
		if rr.Chance(3) { // an occasional payload larger than one packet
			sz := 32768 + rr.Intn(3000)
			add("create " + hx("/big"))
			add(fmt.Sprintf("write %d %s", sh.nh, corr.Hex(payload(rr, sz))))
			add(fmt.Sprintf("writeat %d %s %d", sh.nh, corr.Hex(payload(rr, 5)), sz-2))
			add(fmt.Sprintf("readat %d 16 %d", sh.nh, sz-8))
		}
		add("snapshot")
		cases = append(cases, mk(lines...))
	}
	return cases
}

func C19() *corr.Engine {
	return &corr.Engine{
		ID: "C19", DriverEngine: "sftp",
		Corpus: c19Corpus, Exhaustive: c19Exhaustive, Random: c19Random,
		RunImpl: c19RunImpl, Oracle: c19Oracle, NonTrivial: c19NonTrivial,
		Rule:      "programs of Fs and File calls through sftpfs against the in-process SFTP server; non-trivial = a write-type call that stored at least one byte at a non-zero offset and a later Read/ReadAt (same name) that returned bytes of that range; distinct by script hash",
		Signature: c19Signature, Classify: c19Classify,
	}
}
