#!/bin/sh
# build.sh <repo-dir> <out-binary>
#
# Builds the C19 harness against the sftpfs module of the given afero tree.  sftpfs is a Go module
# of its own, so the harness sources are injected into its tree as *virtual* files through
# `go build -overlay`; nothing is written below <repo-dir>.  Offline: module cache only.
set -eu
[ $# -eq 2 ] || { echo "usage: $0 <repo-dir> <out-binary>" >&2; exit 2; }
HERE=$(cd "$(dirname "$0")" && pwd)
REPO=$(cd "$1" && pwd)
OUT=$2
case "$OUT" in /*) ;; *) OUT="$(pwd)/$OUT" ;; esac
CORR="$HERE/../harness/corr/corr.go"
[ -f "$CORR" ] || { echo "missing $CORR" >&2; exit 2; }
[ -f "$REPO/sftpfs/go.mod" ] || { echo "$REPO/sftpfs is not a Go module" >&2; exit 2; }
TMP=$(mktemp -d "${TMPDIR:-/tmp}/c19-overlay.XXXXXX")
trap 'rm -rf "$TMP"' EXIT
V="$REPO/sftpfs/verifcmd"
{
  printf '{"Replace":{\n'
  for f in main.go server.go c19.go c19oracle.go c19gen.go; do
    printf '  "%s/sftpdrv/%s": "%s/%s",\n' "$V" "$f" "$HERE" "$f"
  done
  printf '  "%s/corr/corr.go": "%s"\n' "$V" "$CORR"
  printf '}}\n'
} > "$TMP/overlay.json"
export GOFLAGS=-mod=mod GOPROXY=off GOSUMDB=off GOTOOLCHAIN=local
cd "$REPO/sftpfs"
go build -overlay "$TMP/overlay.json" -o "$OUT" ./verifcmd/sftpdrv
