package main

// C19 — sftpfs moves file data to and from the server without loss.
//
// Script (driver engine `sftp`), strings and payloads hex encoded ("-" = empty):
//
//   case                                   fresh server, no handles
//   create P | open P | openfile P FLAG    -> h=<k> | err:<c>            post=<probe P>   (openfile: chmod=<log>)
//   mkdir P | remove P                     -> ok | err:<c>               pre=<probe> post=<probe>   (mkdir: chmod=<log>)
//   mkdirall P                             -> ok | err:<c>               pre= post= anc=<1 dir/0 absent/f file per proper ancestor> chmod=<log>
//   rename A B                             -> ok | err:<c>               pre=<probe A>,<probe B> post=…,…
//   stat P                                 -> info size=N dir=B | err:<c>  srv=<probe P>
//   write H X | writestring H X | writeat H X OFF  -> n=<k> err:<c>      pre=<content> post=<content>
//   read H N | readat H N OFF              -> bytes=<content> err:<c>    srv=<content>
//   seek H OFF WHENCE                      -> pos=<p> | err:<c>          size=<server size>
//   trunc H N                              -> ok | err:<c>               pre=<content> post=<content>
//   hstat H                                -> info size=N dir=B | err:<c>  size=<server size>
//   close H                                -> ok | err:<c>
//   snapshot                               -> tree=[<hexpath>:<probe>,…]
//
// Everything after the first result token is read from the server through the *second* client
// connection (a twin handle opened right after the sftpfs handle, bound to the same server-side
// object), never through sftpfs.  <content> is hex for up to 256 bytes, "#<len>:<fnv1a64>" above.

import (
	"bytes"
	"errors"
	"fmt"
	"hash/fnv"
	"io"
	"os"
	"path"
	"strconv"
	"strings"

	"github.com/pkg/sftp"
	"github.com/spf13/afero"
	"github.com/spf13/afero/sftpfs"

	"github.com/spf13/afero/sftpfs/verifcmd/corr"
)

func hexS(s string) string { return corr.HexS(s) }

// contents up to contentFull bytes are printed in full, longer ones as length and hash
const contentFull = 256

func contentStr(b []byte) string {
	if len(b) <= contentFull {
		return corr.Hex(b)
	}
	h := fnv.New64a()
	h.Write(b)
	return fmt.Sprintf("#%d:%016x", len(b), h.Sum64())
}

// errClass: canonical error classes (never messages).
func errClass(err error) string {
	if err == nil {
		return "-"
	}
	var se *sftp.StatusError
	switch {
	case errors.Is(err, os.ErrClosed):
		return "closed"
	case errors.Is(err, io.EOF):
		return "eof"
	case errors.Is(err, os.ErrNotExist):
		return "notexist"
	case errors.Is(err, os.ErrInvalid):
		return "inval"
	case errors.Is(err, os.ErrPermission):
		return "perm"
	case errors.As(err, &se):
		return "fail"
	}
	return "fail"
}

// for write-type calls only "closed" is told apart: the property asks for "an error".
func wErrClass(err error) string {
	c := errClass(err)
	if c == "-" || c == "closed" {
		return c
	}
	return "fail"
}

func atoi(s string) int {
	n, err := strconv.Atoi(s)
	if err != nil {
		panic("bad int " + s)
	}
	return n
}
func atoi64(s string) int64 {
	n, err := strconv.ParseInt(s, 10, 64)
	if err != nil {
		panic("bad int " + s)
	}
	return n
}

func guard(f func() string) (out string) {
	defer func() {
		if r := recover(); r != nil {
			out = "panic"
		}
	}()
	return f()
}

// key = the name the server works with: cleaned and rooted.
func key(p string) string { return path.Clean("/" + p) }

func strictPrefix(a, b string) bool { // is key a a proper ancestor of key b
	if a == b {
		return false
	}
	if a == "/" {
		return true
	}
	return strings.HasPrefix(b, a+"/")
}

// ancestors of a key, root first, the key itself excluded: "/a/b/c" -> "/", "/a", "/a/b"
func ancestors(k string) []string {
	if k == "/" {
		return nil
	}
	out := []string{"/"}
	segs := strings.Split(k[1:], "/")
	cur := ""
	for _, s := range segs[:len(segs)-1] {
		cur += "/" + s
		out = append(out, cur)
	}
	return out
}

const (
	oWRONLY  = 1
	oRDWR    = 2
	oCREATE  = 0x40
	oEXCL    = 0x80
	oTRUNC   = 0x200
	oAPPEND  = 0x400
	flagMask = 3 | oCREATE | oEXCL | oTRUNC | oAPPEND
)

// flagInDomain: access mode 0/1/2 with any of O_CREATE, O_EXCL, O_TRUNC, O_APPEND (the request server
// ignores O_APPEND: such a handle starts at offset 0 like any other, which the model says too).
func flagInDomain(flag int) bool { return flag >= 0 && flag&^flagMask == 0 && flag&3 != 3 }

// what the server lets a handle do (pkg/sftp request server): a handle opened with any of
// write/creat/trunc plus read is read-write, without read write-only, otherwise read-only.
func canRW(flag int) (rd, wr bool) {
	acc := flag & 3
	w := acc != 0 || flag&(oCREATE|oTRUNC|oAPPEND) != 0
	r := acc == 0 || acc == 2
	return r, w
}

type handle struct {
	f      afero.File
	twin   *sftp.File
	rd, wr bool
}

type implState struct {
	w  *world
	fs afero.Fs
	hs []*handle
}

func (st *implState) close() {
	if st.w == nil {
		return
	}
	for _, h := range st.hs {
		func() { defer func() { recover() }(); h.f.Close() }()
		if h.twin != nil {
			h.twin.Close()
		}
	}
	st.w.close()
	st.w = nil
	st.hs = nil
}

func (st *implState) opened(f afero.File, err error, name string, flag int) string {
	if err != nil {
		return "err:" + errClass(err) + " post=" + st.w.probe(name)
	}
	h := &handle{f: f}
	h.rd, h.wr = canRW(flag)
	h.twin, _ = st.w.c2.Open(name)
	st.hs = append(st.hs, h)
	return fmt.Sprintf("h=%d post=%s", len(st.hs)-1, st.w.probe(name))
}

func (h *handle) srv() []byte {
	if h.twin == nil {
		return nil
	}
	return readAll(h.twin)
}

func resErr(err error) string {
	if err == nil {
		return "ok"
	}
	return "err:" + errClass(err)
}

func infoOr(fi os.FileInfo, err error) string {
	if err != nil {
		return "err:" + errClass(err)
	}
	return fmt.Sprintf("info size=%d dir=%v", fi.Size(), fi.IsDir())
}

func (st *implState) exec(t []string) string {
	arg := func(i int) string { return string(corr.UnHex(t[i])) }
	w := st.w
	switch t[0] {
	case "create":
		p := arg(1)
		f, err := st.fs.Create(p)
		return st.opened(f, err, p, oRDWR|oCREATE|oTRUNC)
	case "open":
		p := arg(1)
		f, err := st.fs.Open(p)
		return st.opened(f, err, p, 0)
	case "openfile":
		p, flag := arg(1), atoi(t[2])
		if !flagInDomain(flag) {
			return "skip"
		}
		w.srv.takeChmods()
		f, err := st.fs.OpenFile(p, flag, 0o644)
		return st.opened(f, err, p, flag) + " chmod=" + w.srv.takeChmods()
	case "mkdir":
		p := arg(1)
		pre := w.probe(p)
		w.srv.takeChmods()
		err := st.fs.Mkdir(p, 0o755)
		return fmt.Sprintf("%s pre=%s post=%s chmod=%s", resErr(err), pre, w.probe(p), w.srv.takeChmods())
	case "mkdirall":
		p := arg(1)
		pre := w.probe(p)
		w.srv.takeChmods()
		err := st.fs.MkdirAll(p, 0o755)
		chm := w.srv.takeChmods()
		anc := ""
		for _, a := range ancestors(key(p)) {
			switch pr := w.probe(a); {
			case pr == "d":
				anc += "1"
			case pr == "-":
				anc += "0"
			default:
				anc += "f"
			}
		}
		if anc == "" {
			anc = "-"
		}
		return fmt.Sprintf("%s pre=%s post=%s anc=%s chmod=%s", resErr(err), pre, w.probe(p), anc, chm)
	case "remove":
		p := arg(1)
		pre := w.probe(p)
		err := st.fs.Remove(p)
		return fmt.Sprintf("%s pre=%s post=%s", resErr(err), pre, w.probe(p))
	case "rename":
		a, b := arg(1), arg(2)
		if strictPrefix(key(a), key(b)) {
			return "skip" // moving a directory below itself: the backend iterates a map it is changing
		}
		pa, pb := w.probe(a), w.probe(b)
		err := st.fs.Rename(a, b)
		return fmt.Sprintf("%s pre=%s,%s post=%s,%s", resErr(err), pa, pb, w.probe(a), w.probe(b))
	case "stat":
		p := arg(1)
		fi, err := st.fs.Stat(p)
		return infoOr(fi, err) + " srv=" + w.probe(p)
	case "snapshot":
		var parts []string
		for _, e := range w.tree() {
			k := strings.IndexByte(e, 0)
			parts = append(parts, hexS(e[:k])+":"+e[k+1:])
		}
		return "tree=[" + strings.Join(parts, ",") + "]"
	}
	// handle ops
	if len(t) < 2 {
		return "bad-op"
	}
	hi := atoi(t[1])
	if hi < 0 || hi >= len(st.hs) {
		return "err:nohandle"
	}
	h := st.hs[hi]
	switch t[0] {
	case "write", "writestring", "writeat", "readfrom":
		b := corr.UnHex(t[2])
		pre := h.srv()
		var n int
		var err error
		switch t[0] {
		case "readfrom": // io.Copy into the handle from a reader that offers nothing but Read and hands its last bytes out with io.EOF
			var n64 int64
			n64, err = io.Copy(h.f, &eofDataReader{data: b})
			n = int(n64)
		case "write":
			n, err = h.f.Write(b)
		case "writestring":
			n, err = h.f.WriteString(string(b))
		default:
			n, err = h.f.WriteAt(b, atoi64(t[3]))
		}
		return fmt.Sprintf("n=%d err:%s pre=%s post=%s", n, wErrClass(err), contentStr(pre), contentStr(h.srv()))
	case "copyout": // io.Copy out of the handle into a plain writer: io.WriterTo if the handle has it, Read until io.EOF otherwise
		if !h.rd {
			return "skip"
		}
		var cb bytes.Buffer
		_, cerr := io.Copy(struct{ io.Writer }{&cb}, h.f)
		return fmt.Sprintf("bytes=%s err:%s srv=%s", contentStr(cb.Bytes()), errClass(cerr), contentStr(h.srv()))
	case "read", "readat":
		if !h.rd {
			return "skip" // the backend turns a read on a write-only handle into a write of zeros
		}
		b := make([]byte, atoi(t[2]))
		var n int
		var err error
		if t[0] == "read" {
			n, err = h.f.Read(b)
		} else {
			n, err = h.f.ReadAt(b, atoi64(t[3]))
		}
		return fmt.Sprintf("bytes=%s err:%s srv=%s", contentStr(b[:n]), errClass(err), contentStr(h.srv()))
	case "seek":
		p, err := h.f.Seek(atoi64(t[2]), atoi(t[3]))
		r := fmt.Sprintf("pos=%d", p)
		if err != nil {
			r = "err:" + errClass(err)
		}
		return fmt.Sprintf("%s size=%d", r, len(h.srv()))
	case "trunc":
		pre := h.srv()
		err := h.f.Truncate(atoi64(t[2]))
		return fmt.Sprintf("%s pre=%s post=%s", resErr(err), contentStr(pre), contentStr(h.srv()))
	case "hstat":
		fi, err := h.f.Stat()
		return fmt.Sprintf("%s size=%d", infoOr(fi, err), len(h.srv()))
	case "close":
		return resErr(h.f.Close())
	}
	return "bad-op"
}

func c19RunImpl(c corr.Case) []string {
	st := &implState{}
	defer st.close()
	out := make([]string, 0, len(c.Lines))
	for _, line := range c.Lines {
		t := strings.Fields(line)
		out = append(out, guard(func() string {
			if len(t) == 0 {
				return "bad-op"
			}
			if t[0] == "case" {
				st.close()
				st.w = newWorld()
				st.fs = sftpfs.New(st.w.c)
				return "case"
			}
			if st.w == nil {
				return "bad-op"
			}
			return st.exec(t)
		}))
	}
	return out
}

// eofDataReader returns its last bytes together with io.EOF (as io.Reader allows) and offers nothing but Read
type eofDataReader struct {
	data []byte
	off  int
}

func (r *eofDataReader) Read(p []byte) (int, error) {
	n := copy(p, r.data[r.off:])
	r.off += n
	if r.off == len(r.data) {
		return n, io.EOF
	}
	return n, nil
}
