package main

// The C19 property evaluated on the implementation's result lines, independent of Lean.
//
// The oracle keeps only what a caller of sftpfs knows: for every handle its offset (derived from
// the script: 0 at open, advanced by what Read/Write reported, set by Seek), whether it was
// closed, the cleaned name it was opened under, and whether that name was renamed or removed
// since ("stale": Stat, Truncate and Seek(…, SeekEnd) go through the *name* on this server).
// Everything it compares against was read from the server through the second connection.

import (
	"encoding/hex"
	"fmt"
	"strconv"
	"strings"

	"github.com/spf13/afero/sftpfs/verifcmd/corr"
)

type oHandle struct {
	pos    int64
	closed bool
	key    string
	stale  bool
}

type oWrite struct { // a successful write at a non-zero position
	key      string
	off, end int64
}

type oracleRun struct {
	hs       []*oHandle
	known    map[string][]byte // hash form -> bytes, for contents the oracle computed itself
	writes   []oWrite
	readBack bool // some later read returned bytes of a write at a non-zero position
	skipped  int  // checks skipped because a long content was only known by hash
}

// field returns the value of "name=" in a result line ("" if absent).
func field(line, name string) (string, bool) {
	for _, t := range strings.Fields(line) {
		if strings.HasPrefix(t, name+"=") {
			return t[len(name)+1:], true
		}
	}
	return "", false
}

func errOf(line string) string {
	for _, t := range strings.Fields(line) {
		if strings.HasPrefix(t, "err:") {
			return t[4:]
		}
	}
	return "-"
}

func (o *oracleRun) bytesOf(s string) ([]byte, bool) {
	if s == "-" {
		return nil, true
	}
	if strings.HasPrefix(s, "#") {
		b, ok := o.known[s]
		return b, ok
	}
	b, err := hex.DecodeString(s)
	return b, err == nil
}

func (o *oracleRun) remember(b []byte) {
	if len(b) > contentFull {
		o.known[contentStr(b)] = b
	}
}

func contentLen(s string) int64 {
	if s == "-" {
		return 0
	}
	if strings.HasPrefix(s, "#") {
		k := strings.IndexByte(s, ':')
		n, _ := strconv.ParseInt(s[1:k], 10, 64)
		return n
	}
	return int64(len(s) / 2)
}

func flatWrite(d []byte, off int64, b []byte) []byte {
	out := append([]byte(nil), d...)
	for int64(len(out)) < off+int64(len(b)) {
		out = append(out, 0)
	}
	copy(out[off:], b)
	return out
}

func flatTrunc(d []byte, n int64) []byte {
	out := append([]byte(nil), d...)
	if n <= int64(len(out)) {
		return out[:n]
	}
	return append(out, make([]byte, n-int64(len(out)))...)
}

func (o *oracleRun) markStale(k string) {
	for _, h := range o.hs {
		if h.key == k || strictPrefix(k, h.key) {
			h.stale = true
		}
	}
}

// step checks one (script line, implementation result) pair; "" = fine.
func (o *oracleRun) step(line, res string) string {
	t := strings.Fields(line)
	if len(t) == 0 || t[0] == "snapshot" {
		return ""
	}
	if t[0] == "case" {
		*o = oracleRun{known: map[string][]byte{}}
		return ""
	}
	if res == "panic" {
		return "call panics"
	}
	if res == "skip" || res == "bad-op" || res == "err:nohandle" {
		return ""
	}
	arg := func(i int) string { return string(corr.UnHex(t[i])) }
	rt := strings.Fields(res)
	head := rt[0]
	ok := head == "ok"
	pre, _ := field(res, "pre")
	post, _ := field(res, "post")
	switch t[0] {
	case "create", "open", "openfile":
		if strings.HasPrefix(head, "h=") {
			o.hs = append(o.hs, &oHandle{key: key(arg(1))})
			if !strings.HasPrefix(post, "f:") {
				return "open succeeded but the server holds no regular file under the name (" + post + ")"
			}
			if t[0] == "create" && post != "f:-" {
				return "Create succeeded but the server's file is not empty"
			}
		}
		return ""
	case "mkdir":
		if ok && (pre != "-" || post != "d") {
			return fmt.Sprintf("Mkdir reported success: before %s, after %s", pre, post)
		}
		if chm, _ := field(res, "chmod"); ok && chm != hexS(key(arg(1)))+":493" {
			return "Mkdir created the directory without asking the server for the permission (chmod log " + chm + ")"
		}
		if !ok && post != pre {
			return fmt.Sprintf("Mkdir reported an error but the server changed: before %s, after %s", pre, post)
		}
		return ""
	case "mkdirall":
		anc, _ := field(res, "anc")
		if ok && (post != "d" || strings.ContainsAny(anc, "0f")) {
			return fmt.Sprintf("MkdirAll reported success but the server holds %s under the name (ancestors %s)", post, anc)
		}
		if !ok && post != pre {
			return fmt.Sprintf("MkdirAll reported an error but the name changed: before %s, after %s", pre, post)
		}
		if !ok && !strings.HasPrefix(pre, "f:") && !strings.Contains(anc, "f") {
			return fmt.Sprintf("MkdirAll failed (%s) although no regular file is in the way (ancestors %s)", head, anc)
		}
		if ok && pre == "-" {
			// every directory sftpfs creates gets the requested permission
			chm, _ := field(res, "chmod")
			want := hexS(key(arg(1))) + ":493"
			if !strings.Contains(chm, want) {
				return "MkdirAll created the directory without asking the server for the permission (chmod log " + chm + ")"
			}
		}
		return ""
	case "remove":
		k := key(arg(1))
		if k == "/" {
			return ""
		}
		if ok {
			o.markStale(k)
			if pre == "-" || post != "-" {
				return fmt.Sprintf("Remove reported success: before %s, after %s", pre, post)
			}
		} else if post != pre {
			return fmt.Sprintf("Remove reported an error but the server changed: before %s, after %s", pre, post)
		}
		return ""
	case "rename":
		pp := strings.Split(pre, ",")
		qq := strings.Split(post, ",")
		if len(pp) != 2 || len(qq) != 2 {
			return "malformed rename result"
		}
		if ok {
			o.markStale(key(arg(1)))
			o.markStale(key(arg(2)))
			if pp[0] == "-" || pp[1] != "-" || qq[0] != "-" || qq[1] != pp[0] {
				return fmt.Sprintf("Rename reported success: before %s, after %s", pre, post)
			}
		} else if post != pre {
			return fmt.Sprintf("Rename reported an error but the server changed: before %s, after %s", pre, post)
		}
		return ""
	case "stat":
		srv, _ := field(res, "srv")
		return checkInfo("Stat", res, srv)
	}
	// handle ops
	hi := atoi(t[1])
	if hi < 0 || hi >= len(o.hs) {
		return "result for a handle that was never opened"
	}
	h := o.hs[hi]
	e := errOf(res)
	switch t[0] {
	case "write", "writestring", "writeat", "readfrom":
		b := corr.UnHex(t[2])
		n64, _ := field(res, "n")
		n := atoi(n64)
		off := h.pos
		if t[0] == "writeat" {
			off = atoi64(t[3])
		} else if n > 0 {
			h.pos += int64(n)
		}
		if n < 0 || n > len(b) {
			return fmt.Sprintf("%s reported count %d for %d bytes", t[0], n, len(b))
		}
		if e == "-" && n < len(b) {
			return fmt.Sprintf("%s stored %d of %d bytes and reported no error: the rest is dropped silently", t[0], n, len(b))
		}
		if e == "-" && off < 0 && len(b) > 0 {
			return t[0] + " accepted a negative offset"
		}
		preB, ok1 := o.bytesOf(pre)
		if !ok1 {
			o.skipped++
			return ""
		}
		want := preB
		if n > 0 && off >= 0 {
			want = flatWrite(preB, off, b[:n])
		}
		o.remember(want)
		if post != contentStr(want) {
			if len(b) == 0 && off >= 0 && post == contentStr(flatWrite(preB, off, nil)) {
				return "" // an empty write beyond the end: this server zero-extends, others do not
			}
			return fmt.Sprintf("%s reported n=%d err:%s but the server does not hold the reported bytes at offset %d: has %s, want %s", t[0], n, e, off, post, contentStr(want))
		}
		if e == "-" && n > 0 && off > 0 {
			o.writes = append(o.writes, oWrite{h.key, off, off + int64(n)})
		}
		return ""
	case "read", "readat", "copyout":
		isCopy := t[0] == "copyout"
		if isCopy { // everything from the handle's position to the end; the handle stands at the end afterwards
			t = []string{"read", t[1], "1099511627776"}
		}
		want64 := int64(atoi(t[2]))
		got, _ := field(res, "bytes")
		srv, _ := field(res, "srv")
		off := h.pos
		if t[0] == "readat" {
			off = atoi64(t[3])
		}
		gl := contentLen(got)
		if t[0] == "read" {
			h.pos += gl
		}
		if e != "-" && e != "eof" {
			if gl != 0 {
				return t[0] + " reported an error together with bytes"
			}
			if !h.closed && off >= 0 {
				return fmt.Sprintf("%s failed (%s) on an open handle", t[0], e)
			}
			return ""
		}
		if off < 0 {
			if want64 == 0 && gl == 0 {
				return ""
			}
			return t[0] + " accepted a negative offset"
		}
		srvB, ok1 := o.bytesOf(srv)
		if !ok1 {
			// long content known only by hash: compare lengths
			o.skipped++
			sl := contentLen(srv)
			wl := sl - off
			if wl < 0 {
				wl = 0
			}
			if wl > want64 {
				wl = want64
			}
			if gl != wl {
				return fmt.Sprintf("%s returned %d bytes, the server holds %d from offset %d", t[0], gl, wl, off)
			}
			return ""
		}
		var w []byte
		if off < int64(len(srvB)) {
			end := off + want64
			if end > int64(len(srvB)) {
				end = int64(len(srvB))
			}
			w = srvB[off:end]
		}
		if got != contentStr(w) {
			return fmt.Sprintf("%s returned %s, the server holds %s at offset %d", t[0], got, contentStr(w), off)
		}
		wantErr := "-"
		if int64(len(w)) < want64 && !isCopy { // (the end of the file is not an error of io.Copy)
			wantErr = "eof"
		}
		if e != wantErr {
			return fmt.Sprintf("%s of %d bytes returned %d with err:%s, want err:%s", t[0], want64, len(w), e, wantErr)
		}
		if len(w) > 0 {
			for _, wr := range o.writes {
				if wr.key == h.key && off < wr.end && wr.off < off+int64(len(w)) {
					o.readBack = true
				}
			}
		}
		return ""
	case "seek":
		off, wh := atoi64(t[2]), atoi(t[3])
		sz64, _ := field(res, "size")
		size := atoi64(sz64)
		var tgt int64
		switch wh {
		case 0:
			tgt = off
		case 1:
			tgt = h.pos + off
		case 2:
			tgt = size + off
		default:
			if !strings.HasPrefix(head, "err:") {
				return "Seek accepted an unknown whence"
			}
			return ""
		}
		if strings.HasPrefix(head, "err:") {
			if h.closed || tgt < 0 || (wh == 2 && h.stale) {
				return ""
			}
			return fmt.Sprintf("Seek(%d, %d) failed (%s) on an open handle", off, wh, head[4:])
		}
		p, _ := field(res, "pos")
		if h.closed {
			return "Seek succeeded on a closed handle"
		}
		if wh == 2 && h.stale {
			h.pos = atoi64(p)
			return ""
		}
		if tgt < 0 {
			return "Seek accepted a negative position"
		}
		if atoi64(p) != tgt {
			return fmt.Sprintf("Seek(%d, %d) returned %s, want %d (offset %d, server size %d)", off, wh, p, tgt, h.pos, size)
		}
		h.pos = tgt
		return ""
	case "trunc":
		n := atoi64(t[2])
		if !ok {
			if post != pre {
				return fmt.Sprintf("Truncate reported an error but the server changed: before %s, after %s", pre, post)
			}
			return ""
		}
		if h.closed {
			return "Truncate succeeded on a closed handle"
		}
		if n < 0 {
			return "Truncate accepted a negative size"
		}
		if h.stale {
			return ""
		}
		preB, ok1 := o.bytesOf(pre)
		if !ok1 {
			o.skipped++
			if contentLen(post) != n {
				return fmt.Sprintf("Truncate(%d) left %d bytes on the server", n, contentLen(post))
			}
			return ""
		}
		want := flatTrunc(preB, n)
		o.remember(want)
		if post != contentStr(want) {
			return fmt.Sprintf("Truncate(%d): the server holds %s, want %s", n, post, contentStr(want))
		}
		return ""
	case "hstat":
		if strings.HasPrefix(head, "err:") {
			if h.closed || h.stale {
				return ""
			}
			return "Stat on an open handle failed (" + head[4:] + ")"
		}
		if h.stale {
			return ""
		}
		sz, _ := field(res, "size")
		return checkInfo("File.Stat", res, "f:#"+sz+":")
	case "close":
		if ok {
			if h.closed {
				return "second Close reported success"
			}
			h.closed = true
		}
		return ""
	}
	return ""
}

// checkInfo compares an `info size=N dir=B` / `err:c` result with a server-side probe.
func checkInfo(what, res, srv string) string {
	head := strings.Fields(res)[0]
	if strings.HasPrefix(head, "err:") {
		if srv == "-" && head == "err:notexist" {
			return ""
		}
		if srv == "-" {
			return ""
		}
		return fmt.Sprintf("%s failed (%s) but the server holds %s", what, head[4:], srv)
	}
	sz, _ := field(res, "size")
	dir, _ := field(res, "dir")
	switch {
	case srv == "-":
		return what + " succeeded for a name the server does not hold"
	case srv == "d":
		if dir != "true" {
			return what + " does not report the server's directory as a directory"
		}
	case strings.HasPrefix(srv, "f:"):
		if dir != "false" {
			return what + " reports a regular file as a directory"
		}
		if atoi64(sz) != contentLen(srv[2:]) {
			return fmt.Sprintf("%s reports size %s, the server holds %d bytes", what, sz, contentLen(srv[2:]))
		}
	}
	return ""
}

func c19Oracle(c corr.Case, impl []string) (string, int) {
	o := &oracleRun{known: map[string][]byte{}}
	for i, line := range c.Lines {
		if i >= len(impl) {
			return "implementation produced no result", i
		}
		if what := o.step(line, impl[i]); what != "" {
			return what, i
		}
	}
	return "", -1
}

func c19NonTrivial(c corr.Case, impl []string) bool {
	o := &oracleRun{known: map[string][]byte{}}
	for i, line := range c.Lines {
		if i >= len(impl) {
			break
		}
		o.step(line, impl[i])
	}
	return o.readBack
}

func c19Classify(c corr.Case, impl []string, hist map[string]int) {
	o := &oracleRun{known: map[string][]byte{}}
	for i, line := range c.Lines {
		t := strings.Fields(line)
		if len(t) == 0 {
			continue
		}
		hist["op:"+t[0]]++
		if i < len(impl) {
			hist["err:"+errOf(impl[i])]++
			if impl[i] == "skip" {
				hist["skip"]++
			}
			o.step(line, impl[i])
		}
	}
	if o.readBack {
		hist["branch:nonzero-write-read-back"]++
	}
	if o.skipped > 0 {
		hist["oracle:length-only-checks"] += o.skipped
	}
	for _, h := range o.hs {
		if h.stale {
			hist["branch:stale-handle"]++
			break
		}
	}
}

// c19Signature: the op kind plus the first words of the oracle message, without any numbers,
// offsets or contents, so that one defect gives one signature.
func c19Signature(c corr.Case, impl []string, what string, line int) string {
	if line < 0 || line >= len(c.Lines) {
		return "C19:?"
	}
	t := strings.Fields(c.Lines[line])
	var words []string
	for _, w := range strings.Fields(what) {
		if strings.ContainsAny(w, "0123456789(:=#") {
			break
		}
		words = append(words, w)
		if len(words) == 7 {
			break
		}
	}
	return "C19:" + t[0] + ":" + strings.Join(words, "-")
}
