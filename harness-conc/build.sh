#!/bin/sh
# build.sh <repo-dir> <out-binary>
# Generates the lock-instrumentation overlay from the CURRENT sources of <repo-dir> (memmap.go,
# mem/file.go) and builds the controlled-scheduler harness with it. Nothing is written below <repo-dir>.
set -eu
[ $# -eq 2 ] || { echo "usage: $0 <repo-dir> <out-binary>" >&2; exit 2; }
HERE=$(cd "$(dirname "$0")" && pwd)
REPO=$(cd "$1" && pwd)
OUT=$2
case "$OUT" in /*) ;; *) OUT="$(pwd)/$OUT" ;; esac
H="$HERE/../harness"
TMP=$(mktemp -d "${TMPDIR:-/tmp}/conc-overlay.XXXXXX")
trap 'rm -rf "$TMP"' EXIT
export GOFLAGS=-mod=mod GOPROXY=off GOSUMDB=off GOTOOLCHAIN=local
cd "$H"
cp "$REPO/go.sum" go.sum
go build -o "$TMP/mkoverlay" ./cmd/mkoverlay
"$TMP/mkoverlay" "$REPO" "$TMP/ovl" "$H/overlay/verifsched" >/dev/null
# the data-race clause: plain goroutines under the race detector, no scheduler overlay
if [ "$REPO" != "/repo" ]; then
  sed "s#=> /repo#=> $REPO#" go.mod > "$TMP/go.mod"; cp go.sum "$TMP/go.sum"
  go build -modfile "$TMP/go.mod" -race -o "$OUT-race" ./cmd/hrace
else
  go build -race -o "$OUT-race" ./cmd/hrace
fi
if [ "$REPO" != "/repo" ]; then
  # the harness module replaces afero => /repo: build against another tree through a temporary go.mod
  sed "s#=> /repo#=> $REPO#" go.mod > "$TMP/go.mod"; cp go.sum "$TMP/go.sum"
  go build -modfile "$TMP/go.mod" -tags verif -overlay "$TMP/ovl/overlay.json" -o "$OUT" ./cmd/hconc
else
  go build -tags verif -overlay "$TMP/ovl/overlay.json" -o "$OUT" ./cmd/hconc
fi
