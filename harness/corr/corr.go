// Package corr is the generic correspondence machinery: cases are text scripts, the
// implementation interpreter and the Lean model driver both map a script to one canonical
// result line per script line; this package runs both, diffs them, runs the property
// oracle on the implementation side, shrinks failures and writes the result JSON that
// bin/check turns into a verdict and an evidence file.
package corr

import (
	"bytes"
	"crypto/sha256"
	"encoding/hex"
	"encoding/json"
	"fmt"
	"os"
	"os/exec"
	"sort"
	"strings"
	"time"
)

// ---------- deterministic PRNG (splitmix64); every random choice derives from one seed ----

type Rand struct{ s uint64 }

// NewRand scrambles the seed first (one splitmix64 round), so that neighbouring seeds give
// unrelated streams instead of the same stream shifted by one output.
func NewRand(seed uint64) *Rand {
	z := seed + 0x9E3779B97F4A7C15
	z = (z ^ (z >> 30)) * 0xBF58476D1CE4E5B9
	z = (z ^ (z >> 27)) * 0x94D049BB133111EB
	z ^= z >> 31
	return &Rand{s: z*0x2545F4914F6CDD1D + 0x1234567}
}
func (r *Rand) U64() uint64 {
	r.s += 0x9E3779B97F4A7C15
	z := r.s
	z = (z ^ (z >> 30)) * 0xBF58476D1CE4E5B9
	z = (z ^ (z >> 27)) * 0x94D049BB133111EB
	return z ^ (z >> 31)
}
func (r *Rand) Intn(n int) int {
	if n <= 0 {
		return 0
	}
	return int(r.U64() % uint64(n))
}
func (r *Rand) Bool() bool       { return r.U64()&1 == 1 }
func (r *Rand) Chance(p int) bool { return r.Intn(100) < p }
func (r *Rand) Fork() *Rand      { return NewRand(r.U64()) }
func Pick[T any](r *Rand, xs []T) T { return xs[r.Intn(len(xs))] }

// ---------- helpers for scripts ----------

func Hex(b []byte) string {
	if len(b) == 0 {
		return "-"
	}
	return hex.EncodeToString(b)
}
func HexS(s string) string { return Hex([]byte(s)) }
func UnHex(s string) []byte {
	if s == "-" {
		return nil
	}
	b, err := hex.DecodeString(s)
	if err != nil {
		panic("bad hex " + s)
	}
	return b
}

// A Case is a script: Lines[0] is the `case …` header.
type Case struct {
	Lines []string
	Tag   string // generator stream it came from (exhaustive / random / corpus / malformed)
}

func (c Case) Key() string {
	h := sha256.Sum256([]byte(strings.Join(c.Lines, "\n")))
	return hex.EncodeToString(h[:8])
}

// Failure describes one problem found on a case.
type Failure struct {
	Kind      string   `json:"kind"` // "oracle" (property fails on the implementation) | "correspondence" (model ≠ code)
	What      string   `json:"what"`
	Signature string   `json:"signature"`
	Line      int      `json:"line"`
	Case      []string `json:"case"`
	Impl      []string `json:"impl"`
	Model     []string `json:"model,omitempty"`
	Known     bool     `json:"known"`
	Broken    string   `json:"broken,omitempty"` // which correspondence no longer checks
	FromTag   string   `json:"from"`
}

// Engine is what a property supplies.
type Engine struct {
	ID           string
	DriverEngine string                  // argument passed to the Lean driver
	Corpus       func() []Case           // minimised past failures and hand-written cases: run first
	Exhaustive   func(tier string) []Case // complete enumeration of the finite tables
	Random       func(r *Rand, tier string) []Case
	RunImpl      func(c Case) []string // one canonical line per script line (panics recovered inside)
	// Oracle evaluates the property itself on the implementation results (independent of Lean).
	// Returns "" if the property holds on this case, else (what, line).
	Oracle func(c Case, impl []string) (string, int)
	// NonTrivial: does this case count under Rule?
	NonTrivial func(c Case, impl []string) bool
	Rule       string
	// Signature classifies a shrunk failing case for the known-findings file.
	Signature func(c Case, impl []string, what string, line int) string
	// Classify returns histogram keys for a case (op kinds, error classes, branch tags).
	Classify func(c Case, impl []string, hist map[string]int)
	// Search: when model and code disagree on c but the oracle is silent, try to turn the
	// disagreement into a property failure (variants of c). Optional.
	Search func(c Case, r *Rand) []Case
	// CompareLine lets an engine canonicalise further before the impl/model diff (optional).
	CompareLine func(impl, model string) bool
}

type Result struct {
	Property          string         `json:"property"`
	Tier              string         `json:"tier"`
	Seed              uint64         `json:"seed"`
	Evaluations       int            `json:"evaluations"`
	Lines             int            `json:"lines"`
	DistinctNontriv   int            `json:"distinct_nontrivial"`
	Rule              string         `json:"rule"`
	Exhaustive        bool           `json:"exhaustive"`
	ExhaustiveCases   int            `json:"exhaustive_cases"`
	RandomCases       int            `json:"random_cases"`
	CorpusCases       int            `json:"corpus_cases"`
	TracesValidated   int            `json:"traces_validated_against_impl"`
	Samples           []string       `json:"samples"`
	Hist              map[string]int `json:"histogram"`
	Failures          []Failure      `json:"failures"`
	UnclassifiedFails int            `json:"unclassified_failures"`
	Extra             map[string]any `json:"extra,omitempty"`
}

// RunDriver pipes all cases through the Lean model driver; returns per-case output lines.
func RunDriver(driver, engine string, cases []Case) ([][]string, error) {
	var in bytes.Buffer
	for _, c := range cases {
		for _, l := range c.Lines {
			in.WriteString(l)
			in.WriteByte('\n')
		}
	}
	cmd := exec.Command(driver, engine)
	cmd.Stdin = &in
	var out, errb bytes.Buffer
	cmd.Stdout = &out
	cmd.Stderr = &errb
	if err := cmd.Run(); err != nil {
		return nil, fmt.Errorf("driver %s: %v: %s", engine, err, errb.String())
	}
	lines := strings.Split(strings.TrimRight(out.String(), "\n"), "\n")
	res := make([][]string, len(cases))
	k := 0
	for i, c := range cases {
		if k+len(c.Lines) > len(lines) {
			return nil, fmt.Errorf("driver %s: short output (%d lines, wanted more) at case %d", engine, len(lines), i)
		}
		res[i] = lines[k : k+len(c.Lines)]
		k += len(c.Lines)
	}
	return res, nil
}

func firstDiff(e *Engine, a, b []string) int {
	for i := range a {
		if i >= len(b) {
			return i
		}
		if a[i] != b[i] && (e.CompareLine == nil || !e.CompareLine(a[i], b[i])) {
			return i
		}
	}
	if len(b) > len(a) {
		return len(a)
	}
	return -1
}

type KnownFinding struct {
	Property  string `json:"property"`
	Signature string `json:"signature"`
	What      string `json:"what"`
}
type KnownFile struct {
	Findings []KnownFinding    `json:"findings"`
	Fixed    []json.RawMessage `json:"fixed"`
}

func LoadKnown(path string) KnownFile {
	var k KnownFile
	b, err := os.ReadFile(path)
	if err == nil {
		_ = json.Unmarshal(b, &k)
	}
	return k
}

func (k KnownFile) Has(prop, sig string) bool {
	for _, f := range k.Findings {
		if f.Property == prop && f.Signature == sig {
			return true
		}
	}
	return false
}

// shrink removes script lines (never the header) while pred stays true.
func shrink(c Case, pred func(Case) bool) Case {
	cur := c
	n := 2
	for len(cur.Lines) > 2 {
		if hangBudget <= 0 { // replays no longer return: keep what has been reached
			break
		}
		body := cur.Lines[1:]
		chunk := (len(body) + n - 1) / n
		reduced := false
		for start := 0; start < len(body); start += chunk {
			end := start + chunk
			if end > len(body) {
				end = len(body)
			}
			cand := Case{Tag: cur.Tag}
			cand.Lines = append(cand.Lines, cur.Lines[0])
			cand.Lines = append(cand.Lines, body[:start]...)
			cand.Lines = append(cand.Lines, body[end:]...)
			if len(cand.Lines) > 1 && hangBudget > 0 && pred(cand) {
				cur = cand
				if n > 2 {
					n--
				}
				reduced = true
				break
			}
		}
		if !reduced {
			if chunk == 1 {
				break
			}
			n *= 2
			if n > len(body) {
				n = len(body)
			}
		}
	}
	return cur
}

// Run executes the engine and returns the result.
func Run(e *Engine, tier string, seed uint64, driver string, knownPath string, replay *Case) *Result {
	res := &Result{Property: e.ID, Tier: tier, Seed: seed, Rule: e.Rule, Hist: map[string]int{}, Failures: []Failure{}}
	known := LoadKnown(knownPath)
	var cases []Case
	if replay != nil {
		replay.Tag = "replay"
		cases = []Case{*replay}
	} else {
		if e.Corpus != nil {
			cs := e.Corpus()
			for i := range cs {
				cs[i].Tag = "corpus"
			}
			res.CorpusCases = len(cs)
			cases = append(cases, cs...)
		}
		if e.Exhaustive != nil {
			cs := e.Exhaustive(tier)
			for i := range cs {
				if cs[i].Tag == "" {
					cs[i].Tag = "exhaustive"
				}
			}
			res.ExhaustiveCases = len(cs)
			res.Exhaustive = len(cs) > 0
			cases = append(cases, cs...)
		}
		if e.Random != nil {
			cs := e.Random(NewRand(seed), tier)
			for i := range cs {
				if cs[i].Tag == "" {
					cs[i].Tag = "random"
				}
			}
			res.RandomCases = len(cs)
			cases = append(cases, cs...)
		}
	}
	res.Evaluations = len(cases)

	// implementation (with a watchdog: a call that never returns is a deadlock / livelock)
	impl := make([][]string, len(cases))
	for i, c := range cases {
		out, ok := runWithTimeout(e, c, 60*time.Second)
		if !ok {
			res.Failures = append(res.Failures, Failure{Kind: "oracle", What: "the implementation does not return (deadlock or livelock) while running this case",
				Signature: e.ID + ":hang", Case: c.Lines, FromTag: c.Tag, Known: known.Has(e.ID, e.ID+":hang")})
			res.Evaluations = i + 1
			return res
		}
		impl[i] = out
		res.Lines += len(c.Lines)
	}
	// model
	var model [][]string
	if e.DriverEngine != "" {
		var err error
		model, err = RunDriver(driver, e.DriverEngine, cases)
		if err != nil {
			res.Failures = append(res.Failures, Failure{Kind: "correspondence", What: "model driver failed: " + err.Error(),
				Signature: "driver-failed", Broken: "driver " + e.DriverEngine})
			return res
		}
	}
	seen := map[string]bool{}
	type pending struct {
		idx  int
		kind string
		what string
		line int
	}
	var pend []pending
	for i, c := range cases {
		if e.Classify != nil {
			e.Classify(c, impl[i], res.Hist)
		}
		key := c.Key()
		if !seen[key] {
			seen[key] = true
			if e.NonTrivial == nil || e.NonTrivial(c, impl[i]) {
				res.DistinctNontriv++
			}
		}
		if len(res.Samples) < 4 && (i%(len(cases)/4+1) == 0) {
			res.Samples = append(res.Samples, strings.Join(c.Lines, " ; ")+"  =>  "+strings.Join(impl[i], " ; "))
		}
		if e.Oracle != nil {
			if what, line := oracleSafe(e, c, impl[i]); what != "" {
				pend = append(pend, pending{i, "oracle", what, line})
				continue
			}
		}
		if model != nil {
			if d := firstDiff(e, impl[i], model[i]); d >= 0 {
				pend = append(pend, pending{i, "correspondence", fmt.Sprintf("line %d: impl %q model %q", d, get(impl[i], d), get(model[i], d)), d})
				continue
			}
			res.TracesValidated++
		}
	}
	// shrink and classify failures (cap the work)
	// concrete property failures first: the cap must not hide a failing input behind a run of
	// model/implementation disagreements
	sort.SliceStable(pend, func(i, j int) bool { return pend[i].kind == "oracle" && pend[j].kind != "oracle" })
	const maxShrink = 60
	sigSeen := map[string]bool{}
	for n, p := range pend {
		if n >= maxShrink {
			res.UnclassifiedFails = len(pend) - maxShrink
			break
		}
		c := cases[p.idx]
		f := Failure{Kind: p.kind, What: p.what, Line: p.line, FromTag: c.Tag}
		var small Case
		if p.kind == "oracle" {
			small = shrink(c, func(x Case) bool { w, _ := oracleSafe(e, x, runSafe(e, x)); return w != "" })
			out := runSafe(e, small)
			f.What, f.Line = oracleSafe(e, small, out)
			f.Impl = out
			if model != nil {
				if m, err := RunDriver(driver, e.DriverEngine, []Case{small}); err == nil {
					f.Model = m[0]
				}
			}
		} else {
			small = shrink(c, func(x Case) bool {
				m, err := RunDriver(driver, e.DriverEngine, []Case{x})
				if err != nil {
					return false
				}
				return firstDiff(e, runSafe(e, x), m[0]) >= 0
			})
			out := runSafe(e, small)
			m, _ := RunDriver(driver, e.DriverEngine, []Case{small})
			f.Impl = out
			if len(m) > 0 {
				f.Model = m[0]
				d := firstDiff(e, out, m[0])
				f.Line = d
				f.What = fmt.Sprintf("model and implementation disagree at line %d: impl %q model %q", d, get(out, d), get(m[0], d))
			}
			f.Broken = "correspondence " + e.ID + " / driver " + e.DriverEngine
			// search: can the disagreement be turned into a property failure?
			if e.Oracle != nil {
				cands := []Case{small, c}
				if e.Search != nil {
					cands = append(cands, e.Search(small, NewRand(seed^uint64(n+1)))...)
				}
				for _, x := range cands {
					o := runSafe(e, x)
					if w, l := oracleSafe(e, x, o); w != "" {
						x2 := shrink(x, func(y Case) bool { w, _ := oracleSafe(e, y, runSafe(e, y)); return w != "" })
						o2 := runSafe(e, x2)
						w, l = oracleSafe(e, x2, o2)
						f.Kind, f.What, f.Line, f.Impl = "oracle", w, l, o2
						small = x2
						break
					}
				}
			}
		}
		f.Case = small.Lines
		if e.Signature != nil {
			f.Signature = e.Signature(small, f.Impl, f.What, f.Line)
		} else {
			f.Signature = f.Kind + ":" + small.Key()
		}
		f.Known = known.Has(e.ID, f.Signature)
		k := f.Kind + "|" + f.Signature
		if sigSeen[k] {
			continue
		}
		sigSeen[k] = true
		res.Failures = append(res.Failures, f)
	}
	sort.SliceStable(res.Failures, func(i, j int) bool { return res.Failures[i].Kind > res.Failures[j].Kind })
	return res
}

func runWithTimeout(e *Engine, c Case, d time.Duration) ([]string, bool) {
	ch := make(chan []string, 1)
	go func() { ch <- e.RunImpl(c) }()
	select {
	case out := <-ch:
		return out, true
	case <-time.After(d):
		return nil, false
	}
}

// runSafe is RunImpl under the watchdog, for the replays made while shrinking: a case on which the implementation
// does not return answers "hang" on every line (so it differs from every model answer and fails every oracle that
// looks at it) instead of blocking the check.
var hangBudget = 4 // after that many timeouts no further replay is waited for (each costs a minute and a blocked goroutine)

func runSafe(e *Engine, c Case) []string {
	var out []string
	ok := false
	if hangBudget > 0 {
		out, ok = runWithTimeout(e, c, 60*time.Second)
		if !ok {
			hangBudget--
		}
	}
	if !ok {
		out = make([]string, len(c.Lines))
		for i := range out {
			out[i] = "hang"
		}
	}
	return out
}

// oracleSafe is Oracle under a watchdog: oracles that replay a program on the implementation (twins, sequential
// references) can meet the same deadlock as the run itself.
func oracleSafe(e *Engine, c Case, impl []string) (string, int) {
	type res struct {
		what string
		line int
	}
	ch := make(chan res, 1)
	go func() { w, l := e.Oracle(c, impl); ch <- res{w, l} }()
	select {
	case r := <-ch:
		return r.what, r.line
	case <-time.After(120 * time.Second):
		return "the oracle's replay of this case on the implementation does not return (deadlock or livelock)", 0
	}
}

func get(a []string, i int) string {
	if i >= 0 && i < len(a) {
		return a[i]
	}
	return "<none>"
}

func WriteResult(path string, r *Result) {
	b, _ := json.MarshalIndent(r, "", " ")
	_ = os.WriteFile(path, b, 0o644)
}
