//go:build verif

// h18 C18 --tier quick|thorough --seed N --driver path --known path --out result.json [--replay file] [--repo dir]
//
// The C18 harness is a binary of its own because it needs package afero built with one extra
// (virtual) file, zz_verif_hooks.go, that lets it set the state of TempFile/TempDir's name
// generator: see harness-c18/build.sh.  Flags and the result JSON are those of harness/cmd/h.
package main

import (
	"encoding/json"
	"flag"
	"fmt"
	"os"

	"verifharness/corr"
	"verifharness/engines"
)

func main() {
	if len(os.Args) < 2 || os.Args[1] != "C18" {
		fmt.Fprintln(os.Stderr, "usage: h18 C18 [flags]")
		os.Exit(2)
	}
	fs := flag.NewFlagSet("h18", flag.ExitOnError)
	tier := fs.String("tier", "quick", "")
	seed := fs.Uint64("seed", 1, "")
	driver := fs.String("driver", "/verif/lean/.lake/build/bin/driver", "")
	known := fs.String("known", "/verif/known-findings.json", "")
	out := fs.String("out", "", "")
	replay := fs.String("replay", "", "")
	repo := fs.String("repo", "/repo", "")
	fs.Parse(os.Args[2:])
	engines.RepoDir = *repo
	e := C18()
	var rp *corr.Case
	if *replay != "" {
		b, err := os.ReadFile(*replay)
		if err != nil {
			fmt.Fprintln(os.Stderr, err)
			os.Exit(2)
		}
		var r struct {
			Case []string `json:"case"`
		}
		if err := json.Unmarshal(b, &r); err != nil || len(r.Case) == 0 {
			fmt.Fprintln(os.Stderr, "replay file has no case")
			os.Exit(2)
		}
		rp = &corr.Case{Lines: r.Case}
	}
	res := corr.Run(e, *tier, *seed, *driver, *known, rp)
	if *out != "" {
		corr.WriteResult(*out, res)
	} else {
		b, _ := json.MarshalIndent(res, "", " ")
		fmt.Println(string(b))
	}
}
