//go:build verif

package main

import (
	"fmt"
	"os"
	"path/filepath"
	"sort"
	"strconv"
	"strings"
	"sync"
	"sync/atomic"

	"github.com/spf13/afero"

	"verifharness/corr"
	"verifharness/engines"
)

// ---------------------------------------------------------------------------------------
// C18 — TempFile and TempDir always create fresh, distinct entries.
//
// Script (Lean engine `temp`, see lean/AferoVerif/Engine/TempFile.lean):
//   case <tmpdir-hex> | setrand <n> | tempfile <dir-hex> <pattern-hex> | tempdir <dir-hex> <prefix-hex>
//   conc <goroutines> <calls> plain|same f|d <seed> <dir-hex> <pattern-hex> | snapshot | any Fs-level line
//
// The state of nextRandom's generator is an input: the harness sets it through the build-overlay
// hook afero.VerifSetRandNum, and the generators below compute the candidates the code is going to
// try (the LCG is public knowledge) and create entries under exactly those names beforehand, so
// that 1, 5, 10, 11, 12 … consecutive conflicts happen on demand.
//
// Oracle (independent of the Lean model), around every call: full dump of the MemMapFs path map
// before and after.  A successful call must return a name that was not in the dump before, is in
// it afterwards with the right kind, lies directly in the cleaned requested directory, starts with
// the prefix and ends with the suffix; the only other new entries are missing ancestors of the
// name; every entry that was there before has the same kind, bytes, mode and mtime (a directory
// may list more).  A failing call must leave the dump unchanged.  Concurrent callers: all names
// pairwise distinct, each names its own entry (each caller writes a private token through its
// handle and every file must hold exactly its creator's token), as many new entries as successes.
// ---------------------------------------------------------------------------------------

const c18Tmp = "/vtmp"

func lcg(r uint32) uint32      { return r*1664525 + 1013904223 }
func randStr(r uint32) string  { return fmt.Sprintf("%09d", r%1000000000) }
func hasSep(s string) bool     { return strings.ContainsRune(s, filepath.Separator) }
func atoi(s string) int        { n, err := strconv.Atoi(s); if err != nil { panic("bad int " + s) }; return n }
func unhex(s string) string    { return string(corr.UnHex(s)) }

func guard(f func() string) (out string) {
	defer func() {
		if r := recover(); r != nil {
			out = "panic"
		}
	}()
	return f()
}

// splitPattern is the caller's view of the pattern: text before and after the last '*'.
func splitPattern(kind, pattern string) (prefix, suffix string) {
	if kind == "d" {
		return pattern, ""
	}
	if pos := strings.LastIndex(pattern, "*"); pos != -1 {
		return pattern[:pos], pattern[pos+1:]
	}
	return pattern, ""
}

func errClass(err error) string {
	c := engines.ErrClass(err)
	if strings.HasPrefix(c, "other(") {
		return "other" // messages are never compared
	}
	return c
}

// countingFs counts the IsExist conflicts TempFile/TempDir meet.
type countingFs struct {
	afero.Fs
	conflicts int64
}

func (c *countingFs) OpenFile(name string, flag int, perm os.FileMode) (afero.File, error) {
	f, err := c.Fs.OpenFile(name, flag, perm)
	if os.IsExist(err) {
		atomic.AddInt64(&c.conflicts, 1)
	}
	return f, err
}

func (c *countingFs) Mkdir(name string, perm os.FileMode) error {
	err := c.Fs.Mkdir(name, perm)
	if os.IsExist(err) {
		atomic.AddInt64(&c.conflicts, 1)
	}
	return err
}

type c18State struct {
	mem    afero.Fs
	cfs    *countingFs
	r      *engines.Runner
	tmp    string
	masked bool              // a call has reseeded: names are printed with the digits masked
	synced bool              // the generator state is known (no reseed since the last setrand)
	temps  map[string]string // key of an entry created by a temp call -> masked name
}

func newState(tmp string) *c18State {
	mem := afero.NewMemMapFs()
	os.Setenv("TMPDIR", tmp)
	return &c18State{mem: mem, cfs: &countingFs{Fs: mem}, r: engines.NewRunner(mem), tmp: tmp, synced: true, temps: map[string]string{}}
}

func normKey(name string) string {
	p := filepath.Clean(name)
	if p == "." || p == ".." {
		return "/"
	}
	return p
}

func dump(fs afero.Fs) map[string]engines.Node {
	out := map[string]engines.Node{}
	for _, n := range engines.SnapshotMem(fs) {
		out[n.Path] = n
	}
	return out
}

func isAncestor(a, p string) bool {
	if a == "/" {
		return strings.HasPrefix(p, "/") && p != "/"
	}
	return strings.HasPrefix(p, a+"/")
}

func subset(a, b []string) bool {
	m := map[string]bool{}
	for _, x := range b {
		m[x] = true
	}
	for _, x := range a {
		if !m[x] {
			return false
		}
	}
	return true
}

// unchanged: every entry of `before` is in `after` with the same kind, bytes, mode and mtime.
func unchanged(before, after map[string]engines.Node) string {
	var paths []string
	for p := range before {
		paths = append(paths, p)
	}
	sort.Strings(paths)
	for _, p := range paths {
		b := before[p]
		a, ok := after[p]
		switch {
		case !ok:
			return " #ALTERED(removed " + p + ")"
		case a.Dir != b.Dir:
			return " #ALTERED(kind " + p + ")"
		case string(a.Data) != string(b.Data):
			return " #ALTERED(bytes " + p + ")"
		case a.Mode != b.Mode:
			return " #ALTERED(mode " + p + ")"
		case a.MTime != b.MTime:
			return " #ALTERED(mtime " + p + ")"
		case !subset(b.Listing, a.Listing):
			return " #ALTERED(listing " + p + ")"
		}
	}
	return ""
}

// checkName: the clauses of the property about one successfully returned name.
func checkName(kind, dir, pattern, name string, before, after map[string]engines.Node, wantEmpty bool) string {
	prefix, suffix := splitPattern(kind, pattern)
	key := normKey(name)
	note := ""
	if _, ok := before[key]; ok {
		note += " #NOT-FRESH(" + key + ")"
	}
	if n, ok := after[key]; !ok {
		note += " #MISSING(" + key + ")"
	} else if n.Dir != (kind == "d") {
		note += " #WRONG-KIND(" + key + ")"
	} else if kind == "f" && wantEmpty && len(n.Data) != 0 {
		note += " #NOT-EMPTY(" + key + ")"
	}
	if filepath.Dir(name) != filepath.Clean(dir) {
		note += " #OUTSIDE-DIR(" + name + ")"
	}
	base := filepath.Base(name)
	if !strings.HasPrefix(base, prefix) || !strings.HasSuffix(base, suffix) || len(base) < len(prefix)+len(suffix) {
		note += " #BAD-NAME(" + base + ")"
	}
	return note
}

func maskName(kind, pattern, name string) string {
	_, suffix := splitPattern(kind, pattern)
	hi := len(name) - len(suffix)
	lo := hi - 9
	if lo < 0 || !strings.HasSuffix(name, suffix) {
		return name
	}
	for _, c := range name[lo:hi] {
		if c < '0' || c > '9' {
			return name
		}
	}
	return name[:lo] + "#########" + name[hi:]
}

func (st *c18State) dirOf(dir string) string {
	if dir == "" {
		return st.tmp
	}
	return dir
}

// temp runs one TempFile / TempDir call and renders the result line with the oracle's notes.
func (st *c18State) temp(kind, dir, pattern string) string {
	before := dump(st.mem)
	randBefore := afero.VerifGetRandNum()
	atomic.StoreInt64(&st.cfs.conflicts, 0)
	var name string
	var err error
	var f afero.File
	if kind == "f" {
		f, err = afero.TempFile(st.cfs, dir, pattern)
		if f != nil {
			name = f.Name()
		}
	} else {
		name, err = afero.TempDir(st.cfs, dir, pattern)
	}
	conflicts := atomic.LoadInt64(&st.cfs.conflicts)
	after := dump(st.mem)
	// a zero state is replaced by reseed() as soon as a candidate is drawn (a refused pattern draws none)
	reseeded := conflicts > 10 || (randBefore == 0 && afero.VerifGetRandNum() != 0)
	if reseeded {
		st.masked, st.synced = true, false
	}
	ok := err == nil && (kind == "d" || f != nil)
	head, note := "", ""
	if ok {
		key := normKey(name)
		masked := maskName(kind, pattern, name)
		st.temps[key] = masked
		if st.masked {
			head = "ok name~=" + corr.HexS(masked)
		} else {
			head = "ok name=" + corr.HexS(name)
		}
		if kind == "f" {
			st.r.H = append(st.r.H, f)
			head += fmt.Sprintf(" h=%d", len(st.r.H)-1)
		}
		note += checkName(kind, st.dirOf(dir), pattern, name, before, after, true)
		for p := range after {
			if _, old := before[p]; !old && p != key && !isAncestor(p, key) {
				note += " #EXTRA(" + p + ")"
			}
		}
		note += unchanged(before, after)
	} else {
		if f != nil {
			st.r.H = append(st.r.H, f)
			head = fmt.Sprintf("h=%d err:%s", len(st.r.H)-1, errClass(err))
		} else {
			head = "err:" + errClass(err)
		}
		if engines.FullSnapshot(st.mem, "/") != fullOf(before) {
			note += " #FAIL-NOT-INERT"
		}
	}
	tail := fmt.Sprintf(" conflicts=%d", conflicts)
	if st.synced {
		tail += fmt.Sprintf(" rand=%d", afero.VerifGetRandNum())
	}
	return head + tail + note
}

func fullOf(d map[string]engines.Node) string {
	var ps []string
	for p := range d {
		ps = append(ps, p)
	}
	sort.Strings(ps)
	var b strings.Builder
	for _, p := range ps {
		n := d[p]
		fmt.Fprintf(&b, "%s|%v|%d|%o|%x|%d|%s\n", n.Path, n.Dir, n.Size, n.Mode, n.Data, n.MTime, strings.Join(n.Listing, ","))
	}
	return b.String()
}

type concRes struct {
	name  string
	err   error
	f     afero.File
	token string
	panic bool
}

// conc runs G goroutines × K calls on the real code (plain goroutines, released together).
func (st *c18State) conc(G, K int, mode, kind string, seed uint32, dir, pattern string) string {
	before := dump(st.mem)
	afero.VerifSetRandNum(seed)
	st.synced = true
	atomic.StoreInt64(&st.cfs.conflicts, 0)
	res := make([][]concRes, G)
	var wg sync.WaitGroup
	start := make(chan struct{})
	for g := 0; g < G; g++ {
		res[g] = make([]concRes, K)
		wg.Add(1)
		go func(g int) {
			defer wg.Done()
			<-start
			for k := 0; k < K; k++ {
				func() {
					r := &res[g][k]
					defer func() {
						if recover() != nil {
							r.panic = true
						}
					}()
					if mode == "same" {
						afero.VerifSetRandNum(seed)
					}
					if kind == "f" {
						r.f, r.err = afero.TempFile(st.cfs, dir, pattern)
						if r.f != nil {
							r.name = r.f.Name()
							r.token = fmt.Sprintf("token-g%d-c%d", g, k)
							r.f.WriteString(r.token)
						}
					} else {
						r.name, r.err = afero.TempDir(st.cfs, dir, pattern)
					}
				}()
			}
		}(g)
	}
	close(start)
	wg.Wait()
	conflicts := atomic.LoadInt64(&st.cfs.conflicts)
	after := dump(st.mem)
	note, succ, firstErr := "", 0, ""
	seen := map[string]bool{}
	for g := range res {
		for _, r := range res[g] {
			if r.panic {
				return "panic"
			}
			if r.err != nil || (kind == "f" && r.f == nil) {
				if firstErr == "" {
					firstErr = errClass(r.err)
				}
				continue
			}
			succ++
			key := normKey(r.name)
			if seen[key] {
				note += " #DUPLICATE(" + key + ")"
			}
			seen[key] = true
			st.temps[key] = maskName(kind, pattern, r.name)
			note += checkName(kind, st.dirOf(dir), pattern, r.name, before, after, false)
			if kind == "f" {
				if n, ok := after[key]; ok && string(n.Data) != r.token {
					note += " #SHARED-FILE(" + key + ")"
				}
			}
		}
	}
	fresh := 0
	for p := range after {
		if _, old := before[p]; !old {
			if seen[p] {
				fresh++
			} else {
				anc := false
				for k := range seen {
					if isAncestor(p, k) {
						anc = true
					}
				}
				if !anc {
					note += " #EXTRA(" + p + ")"
				}
			}
		}
	}
	if fresh != succ && !strings.Contains(note, "#DUPLICATE") {
		note += fmt.Sprintf(" #COUNT(%d entries for %d successes)", fresh, succ)
	}
	note += unchanged(before, after)
	// hand the files back empty (the model's sequential run creates empty files)
	for g := range res {
		for _, r := range res[g] {
			if r.f != nil {
				func() { defer func() { recover() }(); r.f.Truncate(0); r.f.Close() }()
			}
		}
	}
	head := fmt.Sprintf("ok n=%d", succ)
	if firstErr != "" {
		head = fmt.Sprintf("err:%s n=%d", firstErr, succ)
	}
	if mode == "plain" {
		head += fmt.Sprintf(" conflicts=%d", conflicts)
		if st.synced {
			head += fmt.Sprintf(" rand=%d", afero.VerifGetRandNum())
		}
	} else {
		st.masked, st.synced = true, false
	}
	return head + note
}

func (st *c18State) snapshot() string {
	ns := engines.SnapshotMem(st.mem)
	if !st.masked {
		return engines.SnapLine(ns)
	}
	var parts []string
	for _, n := range ns {
		p := n.Path
		if m, ok := st.temps[p]; ok {
			p = m
		}
		k, size, data := "f", n.Size, corr.Hex(n.Data)
		if n.Dir {
			k, size, data = "d", 42, "-"
		}
		parts = append(parts, fmt.Sprintf("%s:%s:%d:%d:%s", corr.HexS(p), k, size, n.Mode, data))
	}
	sort.Strings(parts)
	return "snap~ " + strings.Join(parts, "|")
}

func c18RunImpl(c corr.Case) []string {
	st := newState(c18Tmp)
	defer func() { st.r.CloseAll() }()
	out := make([]string, 0, len(c.Lines))
	for _, line := range c.Lines {
		t := strings.Fields(line)
		out = append(out, guard(func() string {
			switch t[0] {
			case "case":
				st.r.CloseAll()
				tmp := c18Tmp
				if len(t) > 1 {
					tmp = unhex(t[1])
				}
				st = newState(tmp)
				afero.VerifSetRandNum(0)
				return "case"
			case "temp-refused":
				return c18Refused()
			case "setrand":
				afero.VerifSetRandNum(uint32(atoi(t[1])))
				st.synced = true
				return "ok"
			case "tempfile":
				return st.temp("f", unhex(t[1]), unhex(t[2]))
			case "tempdir":
				return st.temp("d", unhex(t[1]), unhex(t[2]))
			case "conc":
				return st.conc(atoi(t[1]), atoi(t[2]), t[3], t[4], uint32(atoi(t[5])), unhex(t[6]), unhex(t[7]))
			case "snapshot":
				return st.snapshot()
			case "h.name":
				if hi := atoi(t[1]); st.masked && hi < len(st.r.H) {
					n := st.r.H[hi].Name()
					if m, ok := st.temps[normKey(n)]; ok {
						n = m
					}
					return "str=" + corr.HexS(n)
				}
			}
			return st.r.Exec(t)
		}))
	}
	return out
}

func strip(s string) string {
	if k := strings.Index(s, " #"); k >= 0 {
		return s[:k]
	}
	return s
}

// c18Refused: where the file system refuses to create the entry for a reason other than "exists" (a read-only file
// system; on the operating system's file system a missing directory, a regular file in its place), TempFile and TempDir
// report the error: a call that returns no error has created the entry it names.
func c18Refused() string {
	tmp, err := os.MkdirTemp("/tmp", "verif-c18r-") // (TMPDIR is an input of the case: not used here)
	if err != nil {
		return "fail: " + err.Error()
	}
	defer os.RemoveAll(tmp)
	os.WriteFile(filepath.Join(tmp, "plainfile"), []byte("x"), 0o644)
	mem := afero.NewMemMapFs()
	mem.MkdirAll("/d", 0o755)
	type tc struct {
		what string
		fs   afero.Fs
		dir  string
	}
	for _, c := range []tc{{"a read-only file system", afero.NewReadOnlyFs(mem), "/d"}, {"a missing directory (OsFs)", afero.NewOsFs(), filepath.Join(tmp, "missing", "deeper")},
		{"a regular file as directory (OsFs)", afero.NewOsFs(), filepath.Join(tmp, "plainfile")}} {
		name, err := afero.TempDir(c.fs, c.dir, "job-")
		if err == nil {
			if ok, _ := afero.DirExists(c.fs, name); !ok || name == "" {
				return fmt.Sprintf("fail: TempDir in %s returned %q without an error, and no such directory exists", c.what, name)
			}
		}
		f, err := afero.TempFile(c.fs, c.dir, "job-*.tmp")
		if err == nil {
			nm := f.Name()
			f.Close()
			if ok, _ := afero.Exists(c.fs, nm); !ok {
				return fmt.Sprintf("fail: TempFile in %s returned %q without an error, and no such file exists", c.what, nm)
			}
		} else if f != nil {
			return fmt.Sprintf("fail: TempFile in %s returned a file together with the error %v", c.what, err)
		}
	}
	return "ok"
}

func c18Oracle(c corr.Case, impl []string) (string, int) {
	for i, line := range c.Lines {
		t := strings.Fields(line)
		if i >= len(impl) {
			break
		}
		if impl[i] == "panic" {
			return "call panics: " + t[0], i
		}
		if t[0] == "temp-refused" && strings.HasPrefix(impl[i], "fail") {
			return impl[i], i
		}
		if t[0] != "tempfile" && t[0] != "tempdir" && t[0] != "conc" {
			continue
		}
		if k := strings.Index(impl[i], " #"); k >= 0 {
			what := t[0]
			if t[0] == "conc" {
				what = fmt.Sprintf("%s goroutines x %s %s calls (%s)", t[1], t[2], map[string]string{"f": "TempFile", "d": "TempDir"}[t[4]], t[3])
			} else {
				what += fmt.Sprintf("(%q, %q)", unhex(t[1]), unhex(t[2]))
			}
			return what + ":" + impl[i][k:], i
		}
	}
	return "", -1
}

// ---------------------------------------------------------------------------------------
// case construction
// ---------------------------------------------------------------------------------------

type tcall struct {
	kind     string // f | d
	dir, pat string
	collide  int  // consecutive candidates that exist already
	write    bool // write through the returned handle afterwards
}

type builder struct {
	setup []string
	body  []string
	nh    int // handles opened so far
	r     uint32
}

var c18H = corr.HexS

func (b *builder) preFile(name, content string) {
	b.setup = append(b.setup, "create "+c18H(name), fmt.Sprintf("h.write %d %s", b.nh, c18H(content)), fmt.Sprintf("h.close %d", b.nh))
	b.nh++
}

func (b *builder) preDir(name string) { b.setup = append(b.setup, "mkdirall "+c18H(name)+" 493") }

func dirOr(dir string) string {
	if dir == "" {
		return c18Tmp
	}
	return dir
}

// add appends one temp call, creating beforehand the entries its first `collide` candidates name.
func (b *builder) add(c tcall, reseedTo uint32) {
	op := map[string]string{"f": "tempfile", "d": "tempdir"}[c.kind]
	if hasSep(c.pat) {
		// refused by the repaired source without drawing a candidate
		b.body = append(b.body, op+" "+c18H(c.dir)+" "+c18H(c.pat))
		return
	}
	prefix, suffix := splitPattern(c.kind, c.pat)
	for i := 0; i < c.collide && i < 11; i++ {
		b.r = lcg(b.r)
		name := filepath.Join(dirOr(c.dir), prefix+randStr(b.r)+suffix)
		if (i+len(c.pat))%3 == 1 {
			b.preDir(name)
		} else {
			b.preFile(name, "pre-existing "+name)
		}
	}
	b.body = append(b.body, op+" "+c18H(c.dir)+" "+c18H(c.pat))
	if c.collide > 10 {
		// the 11th conflict reseeds from the clock: resynchronise
		b.body = append(b.body, fmt.Sprintf("setrand %d", reseedTo))
		b.r = reseedTo
	} else {
		b.r = lcg(b.r)
	}
	if c.kind == "f" {
		if c.write {
			b.body = append(b.body, fmt.Sprintf("h.write %d %s", b.nh, c18H(fmt.Sprintf("written through handle %d", b.nh))), fmt.Sprintf("h.name %d", b.nh))
		}
		b.nh++
	}
}

func (b *builder) build(seed uint32) corr.Case {
	l := []string{"case " + c18H(c18Tmp)}
	l = append(l, b.setup...)
	l = append(l, fmt.Sprintf("setrand %d", seed))
	l = append(l, b.body...)
	l = append(l, "snapshot")
	return corr.Case{Lines: l}
}

func newBuilder(seed uint32, mkdirs []string, keep bool) *builder {
	b := &builder{r: seed}
	for _, d := range mkdirs {
		b.preDir(d)
	}
	if keep {
		b.preFile("/d/keep.txt", "kept bytes")
		b.preFile("/vtmp/other", "other bytes")
		b.preFile("/keep-root", "root file")
	}
	return b
}

// (the last two: a "*" in the DIRECTORY is an ordinary character; hidden relative directories)
var c18Dirs = []string{"", ".", "/", "/d", "/d/", "/d/../d", "/d//sub/.", "d", "../up", "/new/deep/dir", "/w/build*", "/w/a*b/c", ".cache", ".hid/sub"}
var c18Patterns = []string{"", strings.Repeat("long-prefix-", 21) + "*.tmp", strings.Repeat("p", 300), "50%-*.txt", "a%20b-*", "q%s-", "%d*%v", "%", "x", "x*", "*y", "x*y", "a*b*c", "*", "**", "x.y*.txt", "sp ace *", ".", "..", "..*", "x*..", "../esc*", "a/b", "/abs*", "x*/y", "x*y/", "*/", ".draft-*.txt", ".hidden", "..x*"}

// lcgPreimageOfZero: the state from which the next step yields 0 (so the call after reseeds).
func lcgPreimageOfZero() uint32 {
	// 1664525 is odd: invert it modulo 2^32 by Newton iteration
	inv := uint32(1)
	for i := 0; i < 6; i++ {
		inv *= 2 - 1664525*inv
	}
	c := uint32(1013904223)
	return (0 - c) * inv
}

func c18Corpus() []corr.Case {
	var cases []corr.Case
	// S21: a pattern / prefix with a path separator must not create anything outside `dir`
	for _, p := range []string{"../esc*", "../../esc", "sub/x", "/abs*", "x*/../../y"} {
		for _, k := range []string{"f", "d"} {
			b := newBuilder(7, []string{"/d", "/d/sub"}, true)
			b.add(tcall{kind: k, dir: "/d", pat: p}, 0)
			b.add(tcall{kind: k, dir: "/d", pat: "after"}, 0)
			cases = append(cases, b.build(7))
		}
	}
	// the probe of the design: seed 7 gives "025555898"
	b := newBuilder(7, nil, false)
	b.add(tcall{kind: "f", dir: "/d", pat: "x*y", write: true}, 0)
	cases = append(cases, b.build(7))
	// a state one step before 0: the following call finds randNum == 0 and reseeds
	z := lcgPreimageOfZero()
	b = newBuilder(z, []string{"/d"}, true)
	b.add(tcall{kind: "f", dir: "/d", pat: "z*"}, 0)
	b.body = append(b.body, "tempfile "+c18H("/d")+" "+c18H("z*"), "setrand 99", "tempdir "+c18H("/d")+" "+c18H("z"))
	cases = append(cases, b.build(z))
	// the requested directory was removed with an ancestor after it had been used: MemMapFs makes it again, with its ancestors
	for _, k := range []string{"tempfile", "tempdir"} {
		cases = append(cases, corr.Case{Lines: []string{"case " + c18H(c18Tmp), "setrand 7", "mkdirall " + c18H("/scratch/job/parts") + " 493",
			k + " " + c18H("/scratch/job/parts") + " " + c18H("p*"), "removeall " + c18H("/scratch"), k + " " + c18H("/scratch/job/parts") + " " + c18H("q*"),
			"stat " + c18H("/scratch/job/parts"), "stat " + c18H("/scratch/job"), "snapshot",
			"removeall " + c18H("/scratch/job"), k + " " + c18H("/scratch/job/parts/deeper") + " " + c18H("r*"), "stat " + c18H("/scratch/job/parts/deeper"), "snapshot"}})
	}
	// the default directory is os.TempDir() at the time of the call, whatever it was at an earlier call
	for _, tmpd := range []string{"/scratch/one", "/scratch/two", "/vtmp"} {
		cases = append(cases, corr.Case{Lines: []string{"case " + c18H(tmpd), "setrand 11", "tempfile - " + c18H("part-*.bin"), "tempdir - " + c18H("job-"), "snapshot"}})
	}
	// refusals other than "the name exists"
	cases = append(cases, corr.Case{Lines: []string{"case " + c18H(c18Tmp), "temp-refused"}})
	// S14: exclusive create must be atomic — callers that all draw the same candidates
	for _, k := range []string{"f", "d"} {
		l := []string{"case " + c18H(c18Tmp), "mkdirall " + c18H("/d") + " 493", fmt.Sprintf("conc 8 5 same %s 7 %s %s", k, c18H("/d"), c18H("t*"))}
		cases = append(cases, corr.Case{Lines: l})
	}
	return cases
}

func c18Exhaustive(tier string) []corr.Case {
	var cases []corr.Case
	seed := uint32(7)
	// every directory spelling × every pattern × both calls × {no collision, one collision}
	for di, d := range c18Dirs {
		for pi, p := range c18Patterns {
			for _, k := range []string{"f", "d"} {
				for _, n := range []int{0, 1} {
					var mk []string
					if (di+pi)%2 == 0 {
						mk = []string{"/d", "/d/sub", "/vtmp"}
					}
					b := newBuilder(seed, mk, (di+pi)%3 != 0)
					b.add(tcall{kind: k, dir: d, pat: p, collide: n, write: true}, 0)
					b.add(tcall{kind: k, dir: d, pat: p}, 0)
					cases = append(cases, b.build(seed))
					seed = nextSeed(seed)
				}
			}
		}
	}
	// every number of consecutive conflicts around the reseed threshold
	for _, n := range []int{2, 3, 5, 9, 10, 11, 12} {
		for _, k := range []string{"f", "d"} {
			for _, d := range []string{"", "/d", "."} {
				for _, p := range []string{"x", "pre*suf", "*"} {
					b := newBuilder(seed, []string{"/d"}, true)
					b.add(tcall{kind: k, dir: d, pat: p, collide: n, write: true}, seed^0x5a5a5a5a)
					b.add(tcall{kind: k, dir: d, pat: p, collide: 1}, 0)
					cases = append(cases, b.build(seed))
					seed = nextSeed(seed)
				}
			}
		}
	}
	// generator states at the edges of uint32
	for _, s := range []uint32{0, 1, 2, 0x7fffffff, 0x80000000, 0xffffffff, 999999999, 1000000000, 4294967295 - 1013904223} {
		b := newBuilder(s, []string{"/d"}, true)
		if s == 0 {
			b.body = append(b.body, "tempfile "+c18H("/d")+" "+c18H("e*"), "setrand 5")
			b.r = 5
			b.nh++
		}
		b.add(tcall{kind: "f", dir: "/d", pat: "e*", collide: 1}, 0)
		b.add(tcall{kind: "d", dir: "/d", pat: "e", collide: 2}, 0)
		cases = append(cases, b.build(s))
	}
	return cases
}

func nextSeed(s uint32) uint32 {
	s = s*2654435761 + 12345
	if s == 0 {
		s = 1
	}
	return s
}

var c18Alphabet = []string{"a", "b", "*", ".", "-", " ", "tmp", "_"}

func randPattern(r *corr.Rand) string {
	switch q := r.Intn(100); {
	case q < 55:
		return corr.Pick(r, c18Patterns[:14])
	case q < 62:
		return corr.Pick(r, c18Patterns[14:])
	default:
		s := ""
		for i := 0; i < 1+r.Intn(6); i++ {
			s += corr.Pick(r, c18Alphabet)
		}
		return s
	}
}

func c18Random(r *corr.Rand, tier string) []corr.Case {
	nseq, nconc := 300, 60
	if tier == "thorough" {
		nseq, nconc = 12000, 2500
	}
	var cases []corr.Case
	for i := 0; i < nseq; i++ {
		rr := r.Fork()
		seed := uint32(rr.U64())
		if seed == 0 {
			seed = 1
		}
		var mk []string
		if rr.Chance(60) {
			mk = []string{"/d", "/d/sub"}
		}
		b := newBuilder(seed, mk, rr.Chance(70))
		ncalls := 1 + rr.Intn(20)
		dirs := []string{corr.Pick(rr, c18Dirs), corr.Pick(rr, c18Dirs)}
		pats := []string{randPattern(rr), randPattern(rr), randPattern(rr)}
		for j := 0; j < ncalls; j++ {
			c := tcall{kind: corr.Pick(rr, []string{"f", "f", "d"}), dir: corr.Pick(rr, dirs), pat: corr.Pick(rr, pats), write: rr.Chance(30)}
			switch q := rr.Intn(100); {
			case q < 45:
			case q < 80:
				c.collide = 1 + rr.Intn(3)
			case q < 92:
				c.collide = 4 + rr.Intn(7)
			default:
				c.collide = 11 + rr.Intn(2)
			}
			b.add(c, uint32(rr.U64())|1)
			if rr.Chance(10) {
				b.body = append(b.body, "snapshot")
			}
		}
		cases = append(cases, b.build(seed))
	}
	for i := 0; i < nconc; i++ {
		rr := r.Fork()
		seed := uint32(rr.U64()) | 1
		kind := corr.Pick(rr, []string{"f", "f", "d"})
		dir := corr.Pick(rr, []string{"/d", "", "/d/", ".", "/new/deep"})
		pat := corr.Pick(rr, []string{"t", "t*", "*u", "t*u", ""})
		G, K := 2+rr.Intn(7), 1+rr.Intn(5)
		mode := "plain"
		if rr.Chance(50) {
			mode = "same"
		}
		b := newBuilder(seed, nil, true)
		if rr.Chance(70) {
			b.preDir(dirOr(dir))
		}
		// entries under some of the names the callers are going to draw
		prefix, suffix := splitPattern(kind, pat)
		x := seed
		ncoll := 0
		for j := 0; j < G*K+4; j++ {
			x = lcg(x)
			if ncoll < 8 && rr.Chance(20) {
				ncoll++
				b.preFile(filepath.Join(dirOr(dir), prefix+randStr(x)+suffix), "taken")
			}
		}
		l := []string{"case " + c18H(c18Tmp)}
		l = append(l, b.setup...)
		l = append(l, fmt.Sprintf("conc %d %d %s %s %d %s %s", G, K, mode, kind, seed, c18H(dir), c18H(pat)))
		if mode == "plain" {
			l = append(l, "snapshot")
		}
		cases = append(cases, corr.Case{Lines: l, Tag: "concurrent"})
	}
	return cases
}

func conflictsOf(line string) int {
	for _, f := range strings.Fields(line) {
		if strings.HasPrefix(f, "conflicts=") {
			n, _ := strconv.Atoi(strings.TrimPrefix(f, "conflicts="))
			return n
		}
	}
	return 0
}

func C18() *corr.Engine {
	return &corr.Engine{
		ID: "C18", DriverEngine: "temp",
		Corpus: c18Corpus, Exhaustive: c18Exhaustive, Random: c18Random,
		RunImpl: c18RunImpl, Oracle: c18Oracle,
		NonTrivial: func(c corr.Case, impl []string) bool {
			for i, l := range c.Lines {
				t := strings.Fields(l)
				if i < len(impl) && (t[0] == "tempfile" || t[0] == "tempdir" || t[0] == "conc") {
					if conflictsOf(impl[i]) > 0 || (t[0] == "conc" && t[3] == "same") {
						return true
					}
				}
			}
			return false
		},
		Rule: "the case contains at least one TempFile/TempDir call that met a forced collision (a pre-existing entry under a name computed from the LCG), or concurrent callers that all draw the same candidates; distinct by script hash",
		Classify: func(c corr.Case, impl []string, hist map[string]int) {
			for i, l := range c.Lines {
				t := strings.Fields(l)
				if i >= len(impl) {
					break
				}
				switch t[0] {
				case "tempfile", "tempdir":
					hist["op:"+t[0]]++
					n := conflictsOf(impl[i])
					switch {
					case n == 0:
						hist["conflicts:0"]++
					case n <= 10:
						hist["conflicts:1-10"]++
					default:
						hist["conflicts:11+(reseed)"]++
					}
					res := strings.Fields(strip(impl[i]))[0]
					hist["result:"+res]++
					if strings.Contains(unhex(t[2]), "*") {
						hist["pattern:star"]++
					} else {
						hist["pattern:nostar"]++
					}
				case "conc":
					hist["op:conc-"+t[3]]++
					hist["conc-goroutines:"+t[1]]++
				}
			}
		},
		Signature: func(c corr.Case, impl []string, what string, line int) string {
			if line < 0 || line >= len(c.Lines) {
				line = 0
			}
			t := strings.Fields(c.Lines[line])
			op := t[0]
			if op == "conc" && len(t) > 3 {
				op += "-" + t[3]
			}
			tag := ""
			if k := strings.Index(what, "#"); k >= 0 {
				tag = strings.FieldsFunc(what[k:], func(r rune) bool { return r == '(' || r == ' ' })[0]
			}
			return "C18:" + op + tag
		},
		CompareLine: func(impl, model string) bool { return model == "unmodelled" || strip(impl) == model },
	}
}
