// hrace: data-race clause of C03. Built with `go build -race` and WITHOUT the scheduler overlay
// (a hand-over scheduler would create happens-before edges between all goroutines and hide every
// race from the detector). Runs seeded concurrent programs on one MemMapFs with plain goroutines
// in a child process and reports the race detector's findings.
//   hrace run <seed> <programs> <repeats>      (child)   prints "program <i>: <lines>" before each program
//   hrace <seed> <programs> <repeats>          (parent)  prints a JSON summary
package main

import (
	"bufio"
	"bytes"
	"encoding/json"
	"fmt"
	"os"
	"os/exec"
	"strings"
	"sync"

	"github.com/spf13/afero"

	"verifharness/corr"
	"verifharness/engines"
)

func gen(r *corr.Rand) (setup []string, threads [][]string) {
	h := corr.HexS
	setup = []string{"mkdirall " + h("/d/s") + " 493", "create " + h("/d/f"), "h.write 0 68656c6c6f", "create " + h("/a")}
	files := []string{"/a", "/d/f", "/b"}
	dirs := []string{"/d", "/e", "/d/s"}
	nt := 2 + r.Intn(3)
	for t := 0; t < nt; t++ {
		var ops []string
		nh := 0
		isDir := map[int]bool{}
		for k := 0; k < 2+r.Intn(4); k++ {
			f, d := corr.Pick(r, files), corr.Pick(r, dirs)
			switch q := r.Intn(100); {
			case q < 12:
				ops = append(ops, "create "+h(f))
				nh++
			case q < 30:
				ops = append(ops, fmt.Sprintf("openfile %s %d 420", h(f), corr.Pick(r, []int{0x42, 2, 0, 0x242, 0x442})))
				nh++
			case q < 38:
				ops = append(ops, "mkdir "+h(d)+" 493")
			case q < 44:
				ops = append(ops, "remove "+h(f))
			case q < 48:
				ops = append(ops, "removeall "+h(corr.Pick(r, []string{"/e", "/d/s"})))
			case q < 56:
				ops = append(ops, "rename "+h(f)+" "+h(corr.Pick(r, files)))
			case q < 64:
				ops = append(ops, "stat "+h(corr.Pick(r, append(files, dirs...))))
			case q < 68:
				ops = append(ops, fmt.Sprintf(corr.Pick(r, []string{"chmod %s 384", "chtimes %s 5"}), h(f)))
			case q < 72:
				ops = append(ops, "open "+h(d))
				isDir[nh] = true
				nh++
			default:
				if nh == 0 {
					ops = append(ops, "stat "+h(f))
					continue
				}
				hi := r.Intn(nh)
				if isDir[hi] {
					ops = append(ops, corr.Pick(r, []string{fmt.Sprintf("h.readdirnames %d -1", hi), fmt.Sprintf("h.readdir %d 1", hi), fmt.Sprintf("h.stat %d", hi)}))
					continue
				}
				ops = append(ops, corr.Pick(r, []string{fmt.Sprintf("h.write %d 5858", hi), fmt.Sprintf("h.read %d 4", hi), fmt.Sprintf("h.seek %d 0 2", hi),
					fmt.Sprintf("h.seek %d -1 2", hi), fmt.Sprintf("h.trunc %d 1", hi), fmt.Sprintf("h.stat %d", hi),
					fmt.Sprintf("h.readat %d 2 0", hi), fmt.Sprintf("h.writeat %d 59 3", hi), fmt.Sprintf("h.close %d", hi)}))
			}
		}
		threads = append(threads, ops)
	}
	return
}

// genList: listing against renames, creations and removals inside the listed directory (the sort of a
// listing compares the children's names, which Rename rewrites)
func genList(r *corr.Rand) (setup []string, threads [][]string) {
	h := corr.HexS
	setup = []string{"mkdirall " + h("/d/s") + " 493", "create " + h("/d/f"), "create " + h("/d/g"), "create " + h("/d/k")}
	in := []string{"/d/f", "/d/g", "/d/k", "/d/m", "/d/n"}
	dirRenamed := false
	nt := 2 + r.Intn(3)
	for t := 0; t < nt; t++ {
		var ops []string
		if t == 0 || r.Chance(40) {
			ops = append(ops, "open "+h("/d"))
			for k := 0; k < 2+r.Intn(3); k++ {
				ops = append(ops, corr.Pick(r, []string{"h.readdir 0 -1", "h.readdirnames 0 -1", "h.readdir 0 2", "h.stat 0", "h.readdirfs 0 -1", "h.readdirfs 0 2", "h.readdirfs 0 -1"}))
			}
		} else {
			for k := 0; k < 2+r.Intn(4); k++ {
				switch q := r.Intn(100); {
				case q < 45:
					ops = append(ops, "rename "+h(corr.Pick(r, in))+" "+h(corr.Pick(r, in)))
				case q < 55:
					if dirRenamed { // a directory goes onto an unused name: once per program
						ops = append(ops, "stat "+h("/d/t"))
					} else {
						dirRenamed = true
						ops = append(ops, "rename "+h("/d/s")+" "+h("/d/t"))
					}
				case q < 65:
					ops = append(ops, "create "+h(corr.Pick(r, in)))
				case q < 72:
					ops = append(ops, "remove "+h(corr.Pick(r, in)))
				default:
					ops = append(ops, "chmod "+h(corr.Pick(r, in))+" 384")
				}
			}
		}
		threads = append(threads, ops)
	}
	if r.Chance(60) { // the handle's io/fs ReadDir against metadata changes of the entries it lists
		threads = append(threads, []string{"open " + h("/d"), "h.readdirfs 0 -1", "h.readdirfs 0 2", "h.readdirfs 0 -1", "h.readdir 0 -1"},
			[]string{"chmod " + h("/d/f") + " 384", "chmod " + h("/d/g") + " 420", "chmod " + h("/d/k") + " 384", "chmod " + h("/d/f") + " 420", "chtimes " + h("/d/g") + " 5"})
	}
	return
}

// genFresh: a filesystem nobody has used yet — its very first operations are issued concurrently
// (the lazy initialisation of the name table must be safe under read-locked first calls too)
func genFresh(r *corr.Rand) (setup []string, threads [][]string) {
	h := corr.HexS
	nt := 2 + r.Intn(4)
	for t := 0; t < nt; t++ {
		var ops []string
		for k := 0; k < 1+r.Intn(3); k++ {
			ops = append(ops, corr.Pick(r, []string{"stat " + h("/"), "open " + h("/"), "stat " + h("/a"), "chmod " + h("/a") + " 384", "chtimes " + h("/") + " 5",
				"mkdir " + h("/d") + " 493", "create " + h("/a"), "openfile " + h("/a") + " 66 420", "mkdirall " + h("/d/s") + " 493", "open " + h("/d")}))
		}
		threads = append(threads, ops)
	}
	return
}

// genEmptyDir: directories that have never had an entry are listed (through handles opened before and during) while
// their first entries are created
func genEmptyDir(r *corr.Rand) (setup []string, threads [][]string) {
	h := corr.HexS
	setup = []string{"mkdir " + h("/e") + " 493", "mkdir " + h("/e2") + " 493", "mkdirall " + h("/p/q") + " 493"}
	dirs := []string{"/e", "/e2", "/p/q"}
	nt := 2 + r.Intn(3)
	for t := 0; t < nt; t++ {
		var ops []string
		d := corr.Pick(r, dirs)
		if t%2 == 0 {
			ops = append(ops, "open "+h(d))
			for k := 0; k < 1+r.Intn(3); k++ {
				ops = append(ops, corr.Pick(r, []string{"h.readdir 0 -1", "h.readdirnames 0 -1", "h.readdir 0 1", "h.stat 0", "stat " + h(d)}))
			}
		} else {
			for k := 0; k < 1+r.Intn(3); k++ {
				ops = append(ops, corr.Pick(r, []string{"create " + h(d+"/x"), "mkdir " + h(d+"/sub") + " 493", "openfile " + h(d+"/y") + " 66 420", "mkdirall " + h(d+"/m/n") + " 493", "remove " + h(d+"/x")}))
			}
		}
		threads = append(threads, ops)
	}
	return
}

// genIO: private handles of several goroutines on one file
func genIO(r *corr.Rand) (setup []string, threads [][]string) {
	h := corr.HexS
	setup = []string{"create " + h("/a"), "h.write 0 68656c6c6f", "create " + h("/b"), "h.write 1 776f726c64", "create " + h("/c")} // (/c stays empty: its first write happens under contention)
	nt := 2 + r.Intn(3)
	for t := 0; t < nt; t++ {
		// (most goroutines share /a; some work on a file of their own: nothing of one file may be shared with another)
		f := "/a"
		if r.Chance(35) {
			f = "/b"
		} else if r.Chance(35) {
			f = "/c"
		}
		ops := []string{fmt.Sprintf("openfile %s %d 420", h(f), corr.Pick(r, []int{2, 2, 0, 0x402}))}
		for k := 0; k < 2+r.Intn(4); k++ {
			ops = append(ops, corr.Pick(r, []string{"h.write 0 5858", "h.read 0 4", "h.seek 0 0 2", "h.seek 0 9 0", "h.seek 0 -1 2", "h.trunc 0 1", "h.trunc 0 7",
				"h.stat 0", "h.readat 0 2 0", "h.writeat 0 59 3", "h.writeat 0 59 12", "h.writeat 0 5a5a 40", "h.trunc 0 60", "stat " + h("/a"), "h.sync 0", "h.name 0", "h.copyout 0", "h.seek 0 0 0"}))
		}
		threads = append(threads, ops)
	}
	return
}

// genCopy: goroutines copy between the two files in opposite directions (and within one file), each through handles
// of its own: no method may hold one file's lock while it waits for another's
func genCopy(r *corr.Rand) (setup []string, threads [][]string) {
	h := corr.HexS
	setup = []string{"create " + h("/a"), "h.write 0 " + strings.Repeat("61", 300), "create " + h("/b"), "h.write 1 " + strings.Repeat("62", 300)}
	nt := 2 + r.Intn(3)
	for t := 0; t < nt; t++ {
		src, dst := "/a", "/b"
		if t%2 == 1 {
			src, dst = "/b", "/a"
		}
		if r.Chance(20) {
			src = dst
		}
		ops := []string{"openfile " + h(dst) + " 2 420", "open " + h(src)}
		for k := 0; k < 2+r.Intn(3); k++ {
			ops = append(ops, corr.Pick(r, []string{"h.copyfrom 0 1 64", "h.copyfrom 0 1 200", "h.seek 1 0 0", "h.seek 0 0 0", "h.copyout 0", "h.read 1 16", "h.write 0 5a5a"}))
		}
		threads = append(threads, ops)
	}
	return
}

func runOne(setup []string, threads [][]string) {
	fs := afero.NewMemMapFs()
	sr := engines.NewRunner(fs)
	for _, l := range setup {
		sr.Exec(strings.Fields(l))
	}
	var wg sync.WaitGroup
	start := make(chan struct{})
	for _, ops := range threads {
		ops := ops
		wg.Add(1)
		go func() {
			defer wg.Done()
			defer func() { recover() }()
			r := engines.NewRunner(fs)
			<-start
			for _, l := range ops {
				r.Exec(strings.Fields(l))
			}
		}()
	}
	close(start)
	wg.Wait()
}

func main() {
	if len(os.Args) > 1 && os.Args[1] == "run" {
		var seed uint64
		var n, rep int
		fmt.Sscan(os.Args[2], &seed)
		fmt.Sscan(os.Args[3], &n)
		fmt.Sscan(os.Args[4], &rep)
		rng := corr.NewRand(seed)
		w := bufio.NewWriter(os.Stderr)
		for i := 0; i < n; i++ {
			var setup []string
			var threads [][]string
			switch i % 7 {
			case 6:
				setup, threads = genCopy(rng.Fork())
			case 5:
				setup, threads = genEmptyDir(rng.Fork())
			case 4:
				setup, threads = genFresh(rng.Fork())
			case 1:
				setup, threads = genList(rng.Fork())
			case 3:
				setup, threads = genIO(rng.Fork())
			default:
				setup, threads = gen(rng.Fork())
			}
			var parts []string
			for ti, t := range threads {
				parts = append(parts, fmt.Sprintf("t%d: %s", ti, strings.Join(t, " ; ")))
			}
			fmt.Fprintf(w, "PROGRAM %d setup: %s || %s\n", i, strings.Join(setup, " ; "), strings.Join(parts, " || "))
			w.Flush()
			for k := 0; k < rep; k++ {
				runOne(setup, threads)
			}
		}
		return
	}
	var seed uint64 = 1
	n, rep := 40, 30
	if len(os.Args) > 3 {
		fmt.Sscan(os.Args[1], &seed)
		fmt.Sscan(os.Args[2], &n)
		fmt.Sscan(os.Args[3], &rep)
	}
	cmd := exec.Command(os.Args[0], "run", fmt.Sprint(seed), fmt.Sprint(n), fmt.Sprint(rep))
	cmd.Env = append(os.Environ(), "GORACE=halt_on_error=0 history_size=3", "GOMAXPROCS=16")
	var eb bytes.Buffer
	cmd.Stderr = &eb
	err := cmd.Run()
	out := eb.String()
	type finding struct {
		Program string `json:"program"`
		Report  string `json:"report"`
	}
	var finds []finding
	cur := ""
	lines := strings.Split(out, "\n")
	for i, l := range lines {
		if strings.HasPrefix(l, "PROGRAM ") {
			cur = l
		}
		if strings.Contains(l, "WARNING: DATA RACE") || strings.HasPrefix(l, "fatal error:") || strings.HasPrefix(l, "panic:") {
			end := i + 14
			if end > len(lines) {
				end = len(lines)
			}
			finds = append(finds, finding{cur, strings.Join(lines[i:end], "\n")})
		}
	}
	res := map[string]any{"programs": n, "repeats": rep, "seed": seed, "findings": finds, "exit_error": fmt.Sprint(err)}
	b, _ := json.MarshalIndent(res, "", " ")
	fmt.Println(string(b))
}
