// mkoverlay <repo-dir> <out-dir>: generates a build overlay (out-dir/overlay.json) in which every
// X.Lock()/X.RLock()/X.Unlock()/X.RUnlock() call statement (also under defer) of memmap.go and
// mem/file.go goes through the verifsched hooks, and the virtual package verifsched exists.
// Nothing is written below <repo-dir>.
package main

import (
	"bytes"
	"encoding/json"
	"fmt"
	"go/ast"
	"go/format"
	"go/parser"
	"go/token"
	"os"
	"path/filepath"
	"strconv"
	"strings"
)

func rewrite(repo, rel, outDir string) (string, int) {
	src := filepath.Join(repo, rel)
	fset := token.NewFileSet()
	f, err := parser.ParseFile(fset, src, nil, parser.ParseComments)
	if err != nil {
		fmt.Fprintln(os.Stderr, err)
		os.Exit(1)
	}
	n := 0
	ast.Inspect(f, func(node ast.Node) bool {
		call, ok := node.(*ast.CallExpr)
		if !ok || len(call.Args) != 0 {
			return true
		}
		sel, ok := call.Fun.(*ast.SelectorExpr)
		if !ok {
			return true
		}
		name := sel.Sel.Name
		if name != "Lock" && name != "Unlock" && name != "RLock" && name != "RUnlock" {
			return true
		}
		var xb bytes.Buffer
		format.Node(&xb, fset, sel.X)
		x := xb.String()
		class := "file"
		if strings.HasSuffix(x, ".mu") {
			class = "mu"
		}
		mode := "W"
		if strings.HasPrefix(name, "R") {
			mode = "R"
		}
		site := fmt.Sprintf("%s:%d", rel, fset.Position(call.Pos()).Line)
		hook := "Lock"
		args := []ast.Expr{lit(site), lit(class), lit(mode), &ast.SelectorExpr{X: sel.X, Sel: ast.NewIdent(name)}}
		if strings.HasSuffix(name, "Unlock") {
			hook = "Unlock"
		} else {
			try := "TryLock"
			if mode == "R" {
				try = "TryRLock"
			}
			args = append(args, &ast.SelectorExpr{X: sel.X, Sel: ast.NewIdent(try)})
		}
		call.Fun = &ast.SelectorExpr{X: ast.NewIdent("verifsched"), Sel: ast.NewIdent(hook)}
		call.Args = args
		n++
		return false
	})
	// add the import
	imp := &ast.ImportSpec{Path: lit("github.com/spf13/afero/verifsched")}
	for _, d := range f.Decls {
		if g, ok := d.(*ast.GenDecl); ok && g.Tok == token.IMPORT {
			g.Specs = append(g.Specs, imp)
			break
		}
	}
	var out bytes.Buffer
	if err := format.Node(&out, fset, f); err != nil {
		fmt.Fprintln(os.Stderr, err)
		os.Exit(1)
	}
	dst := filepath.Join(outDir, strings.ReplaceAll(rel, "/", "_"))
	os.WriteFile(dst, out.Bytes(), 0o644)
	return dst, n
}

func lit(s string) *ast.BasicLit { return &ast.BasicLit{Kind: token.STRING, Value: strconv.Quote(s)} }

func main() {
	if len(os.Args) != 4 {
		fmt.Fprintln(os.Stderr, "usage: mkoverlay <repo-dir> <out-dir> <verifsched-src-dir>")
		os.Exit(2)
	}
	repo, outDir, schedSrc := os.Args[1], os.Args[2], os.Args[3]
	os.MkdirAll(outDir, 0o755)
	repl := map[string]string{}
	total := 0
	for _, rel := range []string{"memmap.go", "mem/file.go"} {
		dst, n := rewrite(repo, rel, outDir)
		repl[filepath.Join(repo, rel)] = dst
		total += n
	}
	repl[filepath.Join(repo, "verifsched", "sched.go")] = filepath.Join(schedSrc, "sched.go")
	b, _ := json.MarshalIndent(map[string]any{"Replace": repl}, "", " ")
	os.WriteFile(filepath.Join(outDir, "overlay.json"), b, 0o644)
	fmt.Printf("rewrote %d lock calls\n", total)
}
