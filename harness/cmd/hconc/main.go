// hconc: controlled-scheduler exploration of concurrent MemMapFs programs (properties C03, C04).
//
// Built ONLY through the overlay produced by cmd/mkoverlay (tag verif): every lock call of
// memmap.go and mem/file.go goes through verifsched, so exactly one goroutine runs at a time and
// every lock acquisition is a scheduling point.  The parent process enumerates schedules
// (depth-first, bounded number of preemptions) and runs every (program, schedule) pair in a child
// process, because a lock-protocol error in afero is a Go runtime *fatal error* that kills the
// process.  Oracles: no panic / fatal / deadlock, tree self-consistent at quiescence, lock traces
// obey the discipline (C03); the call/return history is linearizable w.r.t. the sequential
// MemMapFs (C04).
package main

import (
	"bufio"
	"encoding/json"
	"flag"
	"fmt"
	"io"
	"os"
	"os/exec"
	"path/filepath"
	"sort"
	"strings"
	"time"

	"github.com/spf13/afero"
	"github.com/spf13/afero/verifsched"

	"verifharness/corr"
	"verifharness/engines"
)

type Job struct {
	Setup    []string   `json:"setup"`
	Threads  [][]string `json:"threads"`
	Schedule []int      `json:"schedule"`
}

type OpRec struct {
	Thread, Idx int
	Line        string
	Res         string
	Inv, Ret    int
}

type Choice struct {
	Enabled []int `json:"enabled"`
	Picked  int   `json:"picked"`
	Cur     int   `json:"cur"`
}

type Out struct {
	Ops      []OpRec  `json:"ops"`
	Choices  []Choice `json:"choices"`
	Deadlock bool     `json:"deadlock"`
	Final    string   `json:"final"`
	Incons   string   `json:"inconsistent"`
	Traces   []string `json:"traces"` // per thread: lock events
	Panic    bool     `json:"panic"`
}

// calls that answer with FileInfo values (or names taken from them): afero hands out live views of the file
// objects, so what the caller reads from them is read when it looks, not when the call returned. The harness
// looks right after the call's last release, without a yield in between.
var liveResult = map[string]bool{"stat": true, "statperm": true, "lstat": true, "h.stat": true, "h.readdir": true, "h.readdirnames": true}

func guard(f func() string) (out string) {
	defer func() {
		if r := recover(); r != nil {
			out = "panic"
		}
	}()
	return f()
}

// ---------------- child: run one (program, schedule) under the controlled scheduler -----------

func execute(job Job) Out {
	engines.Atomically = func(f func()) {
		verifsched.NoPreempt++
		defer func() { verifsched.NoPreempt-- }()
		f()
	}
	fs := afero.NewMemMapFs()
	fs.Stat("/") // run the sync.Once initialisation of the root now: it takes a file lock inside Once.Do
	sr := engines.NewRunner(fs)
	for _, l := range job.Setup {
		sr.Exec(strings.Fields(l))
	}
	sr.CloseAll()
	var out Out
	verifsched.Reset()
	n := len(job.Threads)
	threads := make([]*verifsched.Thread, n)
	verifsched.Unblock = func() {
		for _, t := range threads {
			t.Blocked = false
		}
	}
	step := 0
	for i := range job.Threads {
		i := i
		threads[i] = verifsched.NewThread(i)
		r := engines.NewRunner(fs)
		verifsched.Go(threads[i], func() {
			for k, l := range job.Threads[i] {
				verifsched.Yield(verifsched.Event{Kind: "opstart"})
				threads[i].NoPost = liveResult[strings.Fields(l)[0]]
				verifsched.Log = append(verifsched.Log, verifsched.Event{Thread: i, Kind: "op", Class: strings.Fields(l)[0]})
				inv := step
				res := guard(func() string { return r.Exec(strings.Fields(l)) })
				if res == "panic" {
					out.Panic = true
				}
				out.Ops = append(out.Ops, OpRec{i, k, l, res, inv, step})
			}
		})
	}
	cur := -1
	k := 0
	for {
		var enabled []int
		alldone := true
		for _, t := range threads {
			if !t.Done {
				alldone = false
				if !t.Blocked {
					enabled = append(enabled, t.ID)
				}
			}
		}
		if alldone {
			break
		}
		if len(enabled) == 0 {
			out.Deadlock = true
			break
		}
		pick := enabled[0]
		curEnabled := false
		for _, e := range enabled {
			if e == cur {
				curEnabled = true
			}
		}
		if curEnabled {
			pick = cur // default: no preemption
		}
		if len(enabled) > 1 {
			if k < len(job.Schedule) {
				want := job.Schedule[k]
				for _, e := range enabled {
					if e == want {
						pick = want
					}
				}
			}
			c := cur
			if !curEnabled {
				c = -1
			}
			out.Choices = append(out.Choices, Choice{append([]int{}, enabled...), pick, c})
			k++
		}
		step++
		cur = pick
		verifsched.Resume(threads[pick])
	}
	traces := make([][]string, n)
	for _, e := range verifsched.Log {
		if e.Kind == "op" {
			traces[e.Thread] = append(traces[e.Thread], "op:"+e.Class)
			continue
		}
		traces[e.Thread] = append(traces[e.Thread], e.Kind+":"+e.Class+e.Mode)
	}
	for _, t := range traces {
		out.Traces = append(out.Traces, strings.Join(t, ","))
	}
	verifsched.Stop()
	if !out.Deadlock {
		out.Final = engines.SnapLine(engines.SnapshotMem(fs))
		out.Incons = inconsistent(fs)
	}
	return out
}

// every existing path is listed by its parent, every listed entry exists, every path has a parent directory
func inconsistent(fs afero.Fs) string {
	nodes := engines.SnapshotMem(fs)
	m := map[string]engines.Node{}
	for _, n := range nodes {
		m[n.Path] = n
	}
	for _, n := range nodes {
		if n.Path != "/" {
			p, ok := m[filepath.Dir(n.Path)]
			if !ok {
				return n.Path + " has no parent directory"
			}
			if !p.Dir {
				return "parent of " + n.Path + " is not a directory"
			}
			found := false
			for _, l := range p.Listing {
				if l == filepath.Base(n.Path) {
					found = true
				}
			}
			if !found {
				return n.Path + " is not listed by its parent"
			}
		}
		if n.Dir {
			for _, l := range n.Listing {
				if _, ok := m[filepath.Join(n.Path, l)]; !ok {
					return n.Path + " lists " + l + " which does not exist"
				}
			}
		}
	}
	return ""
}

func childLoop() {
	in := bufio.NewReaderSize(os.Stdin, 1<<20)
	w := bufio.NewWriter(os.Stdout)
	for {
		line, err := in.ReadString('\n')
		if line == "" && err != nil {
			return
		}
		var job Job
		if json.Unmarshal([]byte(line), &job) != nil {
			continue
		}
		o := execute(job)
		b, _ := json.Marshal(o)
		w.Write(b)
		w.WriteByte('\n')
		w.Flush()
	}
}

// ---------------- parent -----------------------------------------------------------------------

type child struct {
	cmd *exec.Cmd
	in  io.WriteCloser
	out *bufio.Reader
	err *strings.Builder
}

func startChild() *child {
	c := exec.Command(os.Args[0], "--child")
	in, _ := c.StdinPipe()
	op, _ := c.StdoutPipe()
	eb := &strings.Builder{}
	c.Stderr = eb
	c.Env = append(os.Environ(), "GOMEMLIMIT=2GiB")
	if err := c.Start(); err != nil {
		panic(err)
	}
	return &child{c, in, bufio.NewReaderSize(op, 1<<22), eb}
}

// run returns (out, "", true) or (_, diagnosis, false) if the child died / hung
func (c *child) run(job Job) (Out, string, bool) {
	b, _ := json.Marshal(job)
	c.in.Write(append(b, '\n'))
	type res struct {
		line string
		err  error
	}
	ch := make(chan res, 1)
	go func() {
		l, err := c.out.ReadString('\n')
		ch <- res{l, err}
	}()
	select {
	case r := <-ch:
		if r.err != nil || r.line == "" {
			c.cmd.Wait()
			msg := c.err.String()
			kind := "process died"
			if i := strings.Index(msg, "fatal error:"); i >= 0 {
				kind = strings.SplitN(msg[i:], "\n", 2)[0]
			} else if i := strings.Index(msg, "panic:"); i >= 0 {
				kind = strings.SplitN(msg[i:], "\n", 2)[0]
			}
			return Out{}, kind, false
		}
		var o Out
		json.Unmarshal([]byte(r.line), &o)
		return o, "", true
	case <-time.After(8 * time.Second):
		c.cmd.Process.Kill()
		c.cmd.Wait()
		return Out{}, "hang: the execution did not finish (a goroutine blocked outside the scheduler's view)", false
	}
}

func (c *child) stop() {
	c.in.Close()
	c.cmd.Process.Kill()
	c.cmd.Wait()
}

// lock discipline on one thread's trace (the same predicate is proved sufficient in Lean: C03)
func discipline(trace string) string {
	if trace == "" {
		return ""
	}
	muW, muR, file := 0, 0, 0
	for _, e := range strings.Split(trace, ",") {
		switch e {
		case "acq:muW":
			if muW+muR+file > 0 {
				return "acquires mu while holding a lock"
			}
			muW++
		case "acq:muR":
			if muW+muR+file > 0 {
				return "acquires mu while holding a lock"
			}
			muR++
		case "acq:fileW", "acq:fileWa":
			if file > 0 {
				return "acquires a file lock while holding a file lock"
			}
			file++
		case "rel:muW":
			if muW == 0 {
				return "releases mu (write) which it does not hold"
			}
			muW--
		case "rel:muR":
			if muR == 0 {
				return "releases mu (read) which it does not hold"
			}
			muR--
		case "rel:fileW", "rel:fileWa":
			if file == 0 {
				return "releases a file lock which it does not hold"
			}
			file--
		}
	}
	if muW+muR+file != 0 {
		return "returns holding a lock"
	}
	return ""
}

// ---- linearizability: is there a sequential order, consistent with real time, that gives the
// same results and the same final tree on a fresh (sequentially used) MemMapFs? ----

func linearizable(job Job, o Out) bool {
	ops := o.Ops
	n := len(ops)
	used := make([]bool, n)
	order := make([]int, 0, n)
	nextIdx := make([]int, len(job.Threads))
	var try func() bool
	replay := func(ord []int, full bool) bool {
		prev := verifsched.Active
		verifsched.Active = false
		defer func() { verifsched.Active = prev }()
		fs := afero.NewMemMapFs()
		fs.Stat("/")
		sr := engines.NewRunner(fs)
		for _, l := range job.Setup {
			sr.Exec(strings.Fields(l))
		}
		rs := make([]*engines.Runner, len(job.Threads))
		for i := range rs {
			rs[i] = engines.NewRunner(fs)
		}
		for _, i := range ord {
			res := guard(func() string { return rs[ops[i].Thread].Exec(strings.Fields(ops[i].Line)) })
			if res != ops[i].Res {
				return false
			}
		}
		if full {
			return engines.SnapLine(engines.SnapshotMem(fs)) == o.Final
		}
		return true
	}
	try = func() bool {
		if len(order) == n {
			return replay(order, true)
		}
		for i := 0; i < n; i++ {
			if used[i] || ops[i].Idx != nextIdx[ops[i].Thread] {
				continue
			}
			// real-time order: every op that returned before op i was invoked must already be placed
			ok := true
			for j := 0; j < n; j++ {
				if !used[j] && j != i && ops[j].Ret < ops[i].Inv {
					ok = false
				}
			}
			if !ok {
				continue
			}
			used[i] = true
			order = append(order, i)
			nextIdx[ops[i].Thread]++
			if replay(order, false) && try() {
				return true
			}
			nextIdx[ops[i].Thread]--
			order = order[:len(order)-1]
			used[i] = false
		}
		return false
	}
	return try()
}

// ---- program generation ----

var names = []string{"/a", "/d", "/d/f"}

// genIOProgram: goroutines with private handles on the same file /a (and sometimes /d/f), doing
// positional and sequential I/O, sparse writes (seek or WriteAt beyond the end), truncation, and
// size observations through Stat and handle Stat
func genIOProgram(r *corr.Rand, tier string) Job {
	h := corr.HexS
	var job Job
	job.Setup = append(job.Setup, "create "+h("/a"))
	if r.Chance(70) {
		job.Setup = append(job.Setup, "h.write 0 "+corr.Pick(r, []string{"6162", "616263646566", "61"}))
	}
	nt := 2 + r.Intn(2)
	for t := 0; t < nt; t++ {
		ops := []string{fmt.Sprintf("openfile %s %d 420", h("/a"), corr.Pick(r, []int{2, 2, 2, 0, 0x402}))}
		no := 1 + r.Intn(2)
		if nt == 2 {
			no = 1 + r.Intn(3)
		}
		for k := 0; k < no; k++ {
			switch q := r.Intn(100); {
			case q < 14:
				ops = append(ops, "h.write 0 "+corr.Pick(r, []string{"5859", "58", "58595a5b"}))
			case q < 28:
				ops = append(ops, fmt.Sprintf("h.writeat 0 %s %d", corr.Pick(r, []string{"5859", "58"}), corr.Pick(r, []int{0, 1, 4, 8})))
			case q < 40:
				ops = append(ops, fmt.Sprintf("h.seek 0 %d %d", corr.Pick(r, []int{0, 1, 4, 9}), corr.Pick(r, []int{0, 0, 1, 2})))
			case q < 50:
				ops = append(ops, fmt.Sprintf("h.trunc 0 %d", corr.Pick(r, []int{0, 1, 5, 9})))
			case q < 66:
				ops = append(ops, fmt.Sprintf("h.read 0 %d", corr.Pick(r, []int{1, 4, 16})))
			case q < 78:
				ops = append(ops, fmt.Sprintf("h.readat 0 %d %d", corr.Pick(r, []int{2, 16}), corr.Pick(r, []int{0, 1, 3})))
			case q < 86:
				ops = append(ops, "h.stat 0")
			case q < 94:
				ops = append(ops, "stat "+h("/a"))
			default:
				ops = append(ops, "h.close 0")
			}
		}
		job.Threads = append(job.Threads, ops)
	}
	return job
}

func genProgram(r *corr.Rand, tier string) Job {
	h := corr.HexS
	var job Job
	// each name is consistently a file or a directory: /a file, /d directory, /d/f file, /e directory, /e/s directory
	if r.Chance(60) {
		job.Setup = append(job.Setup, "mkdir "+h("/d")+" 493")
	}
	if r.Chance(40) {
		job.Setup = append(job.Setup, "create "+h("/a"))
	}
	if r.Chance(40) {
		job.Setup = append(job.Setup, "mkdirall "+h("/d")+" 493", "create "+h("/d/f"))
	}
	if r.Chance(30) {
		job.Setup = append(job.Setup, "mkdirall "+h("/e/s")+" 493", "create "+h("/e/s/g"))
	}
	nt := 2 + r.Intn(2)
	if tier == "thorough" && r.Chance(20) {
		nt = 4
	}
	files := []string{"/a", "/d/f", "/b"}
	dirs := []string{"/d", "/e", "/e/s"}
	dirRenamed := false
	for t := 0; t < nt; t++ {
		var ops []string
		no := 1 + r.Intn(2)
		if nt == 2 {
			no = 1 + r.Intn(3)
		}
		nh := 0
		for k := 0; k < no; k++ {
			f, d := corr.Pick(r, files), corr.Pick(r, dirs)
			switch q := r.Intn(100); {
			case q < 14:
				ops = append(ops, "create "+h(f))
				nh++
			case q < 30:
				ops = append(ops, fmt.Sprintf("openfile %s %d 420", h(f), corr.Pick(r, []int{0xc2, 0xc2, 0x42, 0x242, 2, 0})))
				nh++
			case q < 42:
				ops = append(ops, "mkdir "+h(d)+" 493")
			case q < 48:
				ops = append(ops, "mkdirall "+h(corr.Pick(r, []string{"/e/s", "/d", "/e"}))+" 493")
			case q < 58:
				ops = append(ops, "remove "+h(f))
			case q < 66:
				ops = append(ops, "removeall "+h(corr.Pick(r, []string{"/e", "/e/s", "/d/f", "/a"})))
			case q < 76:
				ops = append(ops, "rename "+h(f)+" "+h(corr.Pick(r, files)))
			case q < 80:
				// a directory is renamed onto an otherwise unused name: at most once per program (a second
				// Rename(/e, /g) would target a name that is in use by then — outside the property's programs)
				if dirRenamed {
					ops = append(ops, "stat "+h("/g"))
				} else {
					dirRenamed = true
					ops = append(ops, "rename "+h("/e")+" "+h("/g"))
				}
			case q < 88:
				ops = append(ops, "stat "+h(corr.Pick(r, append(files, dirs...))))
			case q < 92:
				ops = append(ops, fmt.Sprintf(corr.Pick(r, []string{"chmod %s 384", "chtimes %s 5"}), h(f)))
			default:
				if nh > 0 {
					ops = append(ops, corr.Pick(r, []string{fmt.Sprintf("h.write %d 5858", r.Intn(nh)), fmt.Sprintf("h.read %d 4", r.Intn(nh)),
						fmt.Sprintf("h.seek %d 0 2", r.Intn(nh)), fmt.Sprintf("h.trunc %d 1", r.Intn(nh)), fmt.Sprintf("h.close %d", r.Intn(nh))}))
				} else {
					ops = append(ops, "stat "+h(f))
				}
			}
		}
		job.Threads = append(job.Threads, ops)
	}
	return job
}

func preemptions(cs []Choice) int {
	n := 0
	for _, c := range cs {
		if c.Cur >= 0 && c.Picked != c.Cur {
			n++
		}
	}
	return n
}

func jobLines(j Job) []string {
	l := []string{"case conc"}
	for _, s := range j.Setup {
		l = append(l, "setup: "+s)
	}
	for i, t := range j.Threads {
		for _, s := range t {
			l = append(l, fmt.Sprintf("t%d: %s", i, s))
		}
	}
	sc := make([]string, len(j.Schedule))
	for i, s := range j.Schedule {
		sc[i] = fmt.Sprint(s)
	}
	return append(l, "schedule "+strings.Join(sc, ","))
}

func parseJob(lines []string) Job {
	var j Job
	for _, l := range lines {
		switch {
		case strings.HasPrefix(l, "setup: "):
			j.Setup = append(j.Setup, strings.TrimPrefix(l, "setup: "))
		case strings.HasPrefix(l, "t") && strings.Contains(l, ": "):
			p := strings.SplitN(l, ": ", 2)
			var ti int
			fmt.Sscanf(p[0], "t%d", &ti)
			for len(j.Threads) <= ti {
				j.Threads = append(j.Threads, nil)
			}
			j.Threads[ti] = append(j.Threads[ti], p[1])
		case strings.HasPrefix(l, "schedule "):
			for _, s := range strings.Split(strings.TrimPrefix(l, "schedule "), ",") {
				if s != "" {
					var v int
					fmt.Sscan(s, &v)
					j.Schedule = append(j.Schedule, v)
				}
			}
		}
	}
	return j
}

func main() {
	if len(os.Args) > 1 && os.Args[1] == "--child" {
		childLoop()
		return
	}
	if len(os.Args) < 2 {
		fmt.Fprintln(os.Stderr, "usage: hconc <C03|C04> [flags]")
		os.Exit(2)
	}
	id := os.Args[1]
	fl := flag.NewFlagSet("hconc", flag.ExitOnError)
	tier := fl.String("tier", "quick", "")
	seed := fl.Uint64("seed", 1, "")
	driver := fl.String("driver", "", "")
	knownPath := fl.String("known", "/verif/known-findings.json", "")
	outPath := fl.String("out", "", "")
	replay := fl.String("replay", "", "")
	_ = fl.String("repo", "/repo", "")
	fl.Parse(os.Args[2:])
	known := corr.LoadKnown(*knownPath)

	res := &corr.Result{Property: id, Tier: *tier, Seed: *seed, Hist: map[string]int{}, Failures: []corr.Failure{}, Exhaustive: true,
		Rule: "programs of 2–4 goroutines × 1–3 operations over a small shared name set (each name consistently a file or a directory); for each program every schedule with at most 2 (quick) / 3 (thorough) preemptions at lock-acquisition and post-release granularity, each run in a child process; non-trivial = at least two operations of different goroutines touch a common name and the schedule preempts inside a multi-section operation; distinct by (program, schedule) hash"}
	nPrograms, maxPre, maxSched := 120, 2, 400
	if *tier == "thorough" {
		nPrograms, maxPre, maxSched = 600, 3, 2000
	}
	var jobs []Job
	if *replay != "" {
		b, err := os.ReadFile(*replay)
		if err != nil {
			fmt.Fprintln(os.Stderr, err)
			os.Exit(2)
		}
		var r struct {
			Case []string `json:"case"`
		}
		json.Unmarshal(b, &r)
		jobs = []Job{parseJob(r.Case)}
		maxSched = 1
	} else {
		jobs = append(jobs, corpus()...)
		rng := corr.NewRand(*seed)
		for i := 0; i < nPrograms; i++ {
			if i%3 == 2 {
				jobs = append(jobs, genIOProgram(rng.Fork(), *tier))
				continue
			}
			jobs = append(jobs, genProgram(rng.Fork(), *tier))
		}
	}
	ch := startChild()
	defer func() { ch.stop() }()
	sigSeen := map[string]bool{}
	seen := map[string]bool{}
	shapes := map[string]int{}
	allTraces := map[string]Job{}
	addFail := func(kind, what, sig string, j Job, impl []string) {
		f := corr.Failure{Kind: kind, What: what, Signature: sig, Case: jobLines(j), Impl: impl, FromTag: "schedule"}
		f.Known = known.Has(id, sig)
		if sigSeen[sig] {
			return
		}
		sigSeen[sig] = true
		res.Failures = append(res.Failures, f)
	}
	for _, prog := range jobs {
		res.Hist["programs"]++
		// depth-first enumeration of schedules: a schedule is the list of picks at the choice points
		stack := [][]int{prog.Schedule}
		if *replay == "" {
			stack = [][]int{nil}
		}
		explored := 0
		for len(stack) > 0 && explored < maxSched {
			sched := stack[len(stack)-1]
			stack = stack[:len(stack)-1]
			job := Job{prog.Setup, prog.Threads, sched}
			o, diag, ok := ch.run(job)
			explored++
			res.Evaluations++
			key := strings.Join(jobLines(job), "\n")
			if !ok {
				ch = startChild()
				if id == "C03" {
					addFail("oracle", diag, "C03:"+sigOps(job)+":"+strings.SplitN(diag, ":", 2)[0]+":"+lastWord(diag), job, []string{diag})
				}
				continue
			}
			res.TracesValidated++
			pre := preemptions(o.Choices)
			res.Hist[fmt.Sprintf("preemptions:%d", pre)]++
			if !seen[key] {
				seen[key] = true
				if pre >= 1 && sharesName(job) {
					res.DistinctNontriv++
				}
			}
			if len(res.Samples) < 3 && pre >= 1 {
				res.Samples = append(res.Samples, strings.Join(jobLines(job), " ; ")+"  =>  "+opsString(o))
			}
			for _, op := range o.Ops {
				res.Hist["op:"+strings.Fields(op.Line)[0]]++
			}
			for _, tr := range o.Traces {
				for _, sh := range opShapes(tr) {
					shapes[sh]++
				}
				if _, ok := allTraces[tr]; !ok {
					allTraces[tr] = job
				}
			}
			implLines := []string{opsString(o), "traces: " + strings.Join(o.Traces, " | "), "final: " + o.Final}
			switch id {
			case "C03":
				if o.Panic {
					addFail("oracle", "a call panics under this schedule", "C03:"+sigOps(job)+":panic", job, implLines)
				}
				if o.Deadlock {
					addFail("oracle", "deadlock: unfinished goroutines, none can run", "C03:"+sigOps(job)+":deadlock", job, implLines)
				}
				if o.Incons != "" {
					addFail("oracle", "tree not self-consistent at quiescence: "+o.Incons, "C03:"+sigOps(job)+":inconsistent", job, implLines)
				}
				for ti, tr := range o.Traces {
					if d := discipline(tr); d != "" {
						addFail("correspondence", fmt.Sprintf("lock trace of goroutine %d leaves the discipline the proof assumes: %s", ti, d),
							"C03:"+sigOps(job)+":discipline", job, implLines)
					}
				}
			case "C04":
				if !o.Deadlock && !o.Panic && len(o.Ops) <= 10 {
					if !linearizable(job, o) {
						addFail("oracle", "history is not linearizable: no sequential order consistent with real time gives these results and this final tree",
							"C04:"+sigOps(job), job, implLines)
					}
					res.Hist["histories-checked"]++
				}
			}
			// extend: alternatives at choice points beyond the prefix
			if *replay == "" {
				for i := len(sched); i < len(o.Choices); i++ {
					c := o.Choices[i]
					for _, alt := range c.Enabled {
						if alt == c.Picked {
							continue
						}
						// preemption budget
						np := preemptions(o.Choices[:i])
						if c.Cur >= 0 && alt != c.Cur {
							np++
						}
						if np > maxPre {
							continue
						}
						ns := make([]int, 0, i+1)
						for _, cc := range o.Choices[:i] {
							ns = append(ns, cc.Picked)
						}
						ns = append(ns, alt)
						stack = append(stack, ns)
					}
				}
			}
		}
		res.Hist[fmt.Sprintf("schedules-per-program<=%d", ((explored+49)/50)*50)]++
	}
	if id == "C03" && *replay == "" {
		raceRuns(res, *seed, *tier, known, addFail)
	}
	for k, v := range shapes {
		res.Hist["shape:"+k] = v
	}
	// the tie to the Lean model: every observed per-goroutine trace through `typedB` (C03), every
	// observed per-operation shape through the table `allowedShapes` (C04)
	if *driver != "" && *replay == "" {
		var lines []string
		var keys []string
		for tr := range allTraces {
			keys = append(keys, tr)
		}
		sort.Strings(keys)
		for _, tr := range keys {
			if tr == "" {
				lines = append(lines, "trace")
			} else {
				lines = append(lines, "trace "+tr)
			}
		}
		var shk []string
		for sh := range shapes {
			shk = append(shk, sh)
		}
		sort.Strings(shk)
		for _, sh := range shk {
			p := strings.SplitN(sh, ":", 2)
			secs := p[1]
			if secs == "" {
				secs = "-"
			}
			lines = append(lines, "shape "+p[0]+" "+secs)
		}
		outs, err := corr.RunDriver(*driver, "conc", []corr.Case{{Lines: append([]string{"case conc"}, lines...)}})
		if err != nil {
			addFail("correspondence", "model driver failed: "+err.Error(), id+":driver-failed", Job{}, nil)
		} else {
			for i, l := range lines {
				got := outs[0][i+1]
				switch {
				case strings.HasPrefix(l, "trace"):
					tr := strings.TrimPrefix(strings.TrimPrefix(l, "trace"), " ")
					goSays := discipline(tr) == ""
					if id == "C03" && got != fmt.Sprintf("typed=%v", goSays) {
						addFail("correspondence", "harness and Lean model disagree on whether a trace obeys the discipline: "+got, "C03:typedB-mismatch", allTraces[tr], []string{tr})
					}
					if id == "C03" && got == "typed=false" {
						addFail("correspondence", "an observed lock trace is not well typed (the premise of no_fatal / progress fails for this code)", "C03:untyped-trace:"+firstOp(tr), allTraces[tr], []string{tr})
					}
				case strings.HasPrefix(l, "shape") && id == "C04":
					if got != "ok" {
						addFail("correspondence", "an operation's critical sections are not of a shape the atomicity argument covers: "+l, "C04:"+l, Job{}, []string{l})
					}
				}
			}
			res.Hist["traces-through-lean"] = len(keys)
			res.Hist["shapes-through-lean"] = len(shk)
		}
	}
	res.ExhaustiveCases = res.Evaluations
	sort.SliceStable(res.Failures, func(i, j int) bool { return res.Failures[i].Kind > res.Failures[j].Kind })
	if len(res.Samples) == 0 {
		res.Samples = []string{"<no preempting schedule explored>"}
	}
	if *outPath != "" {
		corr.WriteResult(*outPath, res)
	} else {
		b, _ := json.MarshalIndent(res, "", " ")
		fmt.Println(string(b))
	}
}

// raceRuns executes the separate -race build (plain goroutines, 16 OS threads) and turns the race
// detector's reports into failures. The model predicts "no race"; this part samples.
func raceRuns(res *corr.Result, seed uint64, tier string, known corr.KnownFile, addFail func(kind, what, sig string, j Job, impl []string)) {
	bin := os.Args[0] + "-race"
	if _, err := os.Stat(bin); err != nil {
		res.Hist["race-binary-missing"]++
		return
	}
	n, rep := 60, 25
	if tier == "thorough" {
		n, rep = 1500, 60
	}
	limit := 90 * time.Second
	if tier == "thorough" {
		limit = 30 * time.Minute
	}
	cmd := exec.Command(bin, fmt.Sprint(seed), fmt.Sprint(n), fmt.Sprint(rep))
	var ob strings.Builder
	cmd.Stdout = &ob
	if err := cmd.Start(); err != nil {
		addFail("oracle", "the race-detector run could not start", "C03:race-run-failed", Job{}, []string{err.Error()})
		return
	}
	done := make(chan error, 1)
	go func() { done <- cmd.Wait() }()
	select {
	case <-done:
	case <-time.After(limit):
		// with plain goroutines (real RWMutex semantics, writer preference) the programs did not finish
		cmd.Process.Kill()
		<-done
		exec.Command("pkill", "-f", bin+" run").Run()
		addFail("oracle", "deadlock or livelock: concurrent programs on plain goroutines did not finish within the time limit", "C03:race-run-hang", Job{}, []string{"uninstrumented -race build, " + fmt.Sprint(n) + " programs"})
		return
	}
	out := []byte(ob.String())
	var r struct {
		Findings []struct{ Program, Report string } `json:"findings"`
	}
	if i := strings.Index(string(out), "{"); i >= 0 {
		json.Unmarshal(out[i:], &r)
	} else {
		addFail("oracle", "the race-detector run produced no result", "C03:race-run-failed", Job{}, []string{string(out)})
		return
	}
	res.Hist["race-programs"] += n
	res.Hist["race-executions"] += n * rep
	res.Evaluations += n * rep
	for _, f := range r.Findings {
		first := strings.SplitN(f.Report, "\n", 2)[0]
		var frames []string
		for _, l := range strings.Split(f.Report, "\n") {
			l = strings.TrimSpace(l)
			if strings.HasPrefix(l, "github.com/spf13/afero") {
				frames = append(frames, strings.TrimSuffix(l, "()"))
			}
		}
		if len(frames) > 2 {
			frames = frames[:2]
		}
		j := Job{Setup: []string{f.Program}}
		addFail("oracle", first+" between "+strings.Join(frames, " and ")+" (race detector)", "C03:race:"+strings.Join(frames, "|"), j, strings.Split(f.Report, "\n"))
	}
}

// opShapes cuts a thread's lock trace into per-operation pieces and projects each onto its
// mu-level sections: "create:W", "mkdir:R,W", "stat:R" … (file-lock events dropped)
func opShapes(trace string) []string {
	var out []string
	cur, op := []string{}, ""
	flush := func() {
		if op != "" {
			out = append(out, op+":"+strings.Join(cur, ","))
		}
	}
	for _, e := range strings.Split(trace, ",") {
		switch {
		case strings.HasPrefix(e, "op:"):
			flush()
			op, cur = strings.TrimPrefix(e, "op:"), []string{}
		case e == "acq:muW":
			cur = append(cur, "W")
		case e == "acq:muR":
			cur = append(cur, "R")
		case e == "acq:fileW" && strings.HasPrefix(op, "h."):
			cur = append(cur, "F")
		}
	}
	flush()
	return out
}

func firstOp(tr string) string {
	for _, e := range strings.Split(tr, ",") {
		if strings.HasPrefix(e, "op:") {
			return e
		}
	}
	return "?"
}

func lastWord(s string) string {
	f := strings.Fields(s)
	if len(f) == 0 {
		return ""
	}
	return f[len(f)-1]
}

func opsString(o Out) string {
	var p []string
	for _, op := range o.Ops {
		p = append(p, fmt.Sprintf("t%d.%d[%d,%d] %s -> %s", op.Thread, op.Idx, op.Inv, op.Ret, strings.Fields(op.Line)[0], op.Res))
	}
	return strings.Join(p, " ; ")
}

// signature: the multiset of op kinds of the program (so that a different violation is still reported)
func sigOps(j Job) string {
	var ks []string
	for _, t := range j.Threads {
		var k []string
		for _, l := range t {
			f := strings.Fields(l)
			op := f[0]
			if op == "openfile" {
				op += fmt.Sprintf("[%#x]", atoi(f[2]))
			}
			k = append(k, op)
		}
		ks = append(ks, strings.Join(k, "+"))
	}
	sort.Strings(ks)
	return strings.Join(ks, "||")
}

func atoi(s string) int {
	var v int
	fmt.Sscan(s, &v)
	return v
}

func sharesName(j Job) bool {
	seen := map[string]int{}
	for ti, t := range j.Threads {
		for _, l := range t {
			f := strings.Fields(l)
			if len(f) > 1 && !strings.HasPrefix(f[0], "h.") {
				if prev, ok := seen[f[1]]; ok && prev != ti {
					return true
				}
				seen[f[1]] = ti
			}
		}
	}
	return false
}

func corpus() []Job {
	h := corr.HexS
	return []Job{
		// a sparse write (seek beyond the end, then Write) against a reader and a Stat: the zero fill and the
		// payload must appear together
		{Setup: []string{"create " + h("/a"), "h.write 0 6162"}, Threads: [][]string{
			{"openfile " + h("/a") + " 2 420", "h.seek 0 4 0", "h.write 0 5859"},
			{"openfile " + h("/a") + " 0 420", "h.readat 0 16 0", "stat " + h("/a")}}},
		{Setup: []string{"create " + h("/a"), "h.write 0 6162"}, Threads: [][]string{
			{"openfile " + h("/a") + " 2 420", "h.writeat 0 5859 4"},
			{"stat " + h("/a"), "stat " + h("/a")}}},
		// Remove of a name that is renamed away and re-created meanwhile: whichever order, the tree stays consistent
		{Setup: []string{"mkdir " + h("/d") + " 493", "create " + h("/d/f")}, Threads: [][]string{
			{"remove " + h("/d/f")}, {"rename " + h("/d/f") + " " + h("/b"), "create " + h("/d/f")}}},
		{Setup: []string{"create " + h("/a")}, Threads: [][]string{
			{"remove " + h("/a")}, {"rename " + h("/a") + " " + h("/b"), "create " + h("/a")}, {"stat " + h("/b")}}},
		// a positional read racing with a truncation below its offset, through two handles
		{Setup: []string{"create " + h("/a"), "h.write 0 616263646566"}, Threads: [][]string{
			{"openfile " + h("/a") + " 0 420", "h.readat 0 16 3", "h.read 0 4"},
			{"openfile " + h("/a") + " 2 420", "h.trunc 0 1", "h.write 0 5859"}}},
		// S12: Rename ‖ Remove of the same file
		{Setup: []string{"create " + h("/a")}, Threads: [][]string{{"rename " + h("/a") + " " + h("/b")}, {"remove " + h("/a")}}},
		// S14: two exclusive creates of one name
		{Threads: [][]string{{"openfile " + h("/a") + " 194 420"}, {"openfile " + h("/a") + " 194 420"}}},
		// S16: Mkdir ‖ Remove
		{Threads: [][]string{{"mkdir " + h("/d") + " 493"}, {"remove " + h("/d")}}},
		// S15: RemoveAll ‖ Stat inside the subtree
		{Setup: []string{"mkdirall " + h("/e/s") + " 493", "create " + h("/e/s/g"), "create " + h("/e/k")},
			Threads: [][]string{{"removeall " + h("/e")}, {"stat " + h("/e/s/g"), "stat " + h("/e")}}},
		// two Mkdir of one name
		{Threads: [][]string{{"mkdir " + h("/d") + " 493"}, {"mkdir " + h("/d") + " 493"}}},
		// names that merely begin with two dots are ordinary names: a subtree is removed / moved with them
		{Setup: []string{"mkdirall " + h("/v/a/..data") + " 493", "create " + h("/v/a/..data/f"), "create " + h("/v/a/..2026")},
			Threads: [][]string{{"removeall " + h("/v/a")}, {"stat " + h("/v/a/..data/f"), "stat " + h("/v/a/..2026")}}},
		{Setup: []string{"mkdirall " + h("/d/..data") + " 493", "create " + h("/d/..data/f")},
			Threads: [][]string{{"rename " + h("/d") + " " + h("/e")}, {"stat " + h("/e/..data/f"), "stat " + h("/d/..data/f")}}},
		// one call, one effect, whatever the payload size: two large WriteString / Write calls at the same offset and a reader
		{Setup: []string{"create " + h("/a")}, Threads: [][]string{
			{"openfile " + h("/a") + " 2 420", "h.writestring 0 " + strings.Repeat("41", 9000)},
			{"openfile " + h("/a") + " 2 420", "h.writestring 0 " + strings.Repeat("42", 9000)},
			{"openfile " + h("/a") + " 0 420", "h.readat 0 8 4092", "h.readat 0 8 8188"}}},
		{Setup: []string{"create " + h("/a")}, Threads: [][]string{
			{"openfile " + h("/a") + " 2 420", "h.write 0 " + strings.Repeat("41", 70000)},
			{"openfile " + h("/a") + " 2 420", "h.writeat 0 " + strings.Repeat("42", 70000) + " 0"},
			{"openfile " + h("/a") + " 0 420", "h.readat 0 8 32764", "h.readat 0 8 65532"}}},
		// a metadata call racing with a rename of its target and a Stat of the new name
		{Setup: []string{"create " + h("/a")}, Threads: [][]string{{"chmod " + h("/a") + " 384"}, {"rename " + h("/a") + " " + h("/b"), "statperm " + h("/b")}}},
		{Setup: []string{"create " + h("/a")}, Threads: [][]string{{"chtimes " + h("/a") + " 5"}, {"remove " + h("/a"), "create " + h("/a"), "stat " + h("/a")}}},
	}
}
