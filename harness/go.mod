module verifharness

go 1.23.0

toolchain go1.23.5

require github.com/spf13/afero v0.0.0

replace github.com/spf13/afero => /repo
