package engines

import (
	"bytes"
	"errors"
	"fmt"
	"io"
	"os"
	"strings"
	"time"

	"github.com/spf13/afero"

	"verifharness/corr"
)

// ---------------------------------------------------------------------------------------
// C12 — a failed or short copy to the overlay never leaves a partial file.
// Script (engine `copyfault`):
//   copy <len> <seed> <oldlen|-1> <oldseed> <dirExists> <faultIdx|-1> <error|short> <k> <scenario>
// The harness wraps base and layer in counting decorators, runs the scenario once without a
// fault to learn the calls, and the enumerator then injects a fault at every call index.
// faultIdx is relative to the copy's first call (base.Open); negative indices −2, −3, … address the
// caller's own calls before it, indices past the copy its calls after it (oracle only).
// ---------------------------------------------------------------------------------------

var errInjected = errors.New("injected fault")

type faultPlan struct {
	at    int    // absolute call index at which the fault fires (-1: never)
	kind  string // error | short
	k     int
	n     int      // calls seen so far
	log   []string // call names
	fired bool
}

func (p *faultPlan) hit(name string) (bool, string, int) {
	i := p.n
	p.n++
	p.log = append(p.log, name)
	if i == p.at {
		p.fired = true
		return true, p.kind, p.k
	}
	return false, "", 0
}

type faultFs struct {
	afero.Fs
	tag  string
	plan *faultPlan
}

type faultFile struct {
	afero.File
	tag  string
	plan *faultPlan
}

func (f *faultFs) wrap(file afero.File, err error) (afero.File, error) {
	if file == nil || err != nil {
		return file, err
	}
	return &faultFile{file, f.tag + "f", f.plan}, nil
}
func (f *faultFs) Stat(n string) (os.FileInfo, error) {
	if h, _, _ := f.plan.hit(f.tag + ".Stat"); h {
		return nil, errInjected
	}
	return f.Fs.Stat(n)
}
func (f *faultFs) Open(n string) (afero.File, error) {
	if h, _, _ := f.plan.hit(f.tag + ".Open"); h {
		return nil, errInjected
	}
	return f.wrap(f.Fs.Open(n))
}
func (f *faultFs) OpenFile(n string, fl int, p os.FileMode) (afero.File, error) {
	if h, _, _ := f.plan.hit(f.tag + ".OpenFile"); h {
		return nil, errInjected
	}
	return f.wrap(f.Fs.OpenFile(n, fl, p))
}
func (f *faultFs) Create(n string) (afero.File, error) {
	if h, _, _ := f.plan.hit(f.tag + ".Create"); h {
		return nil, errInjected
	}
	return f.wrap(f.Fs.Create(n))
}
func (f *faultFs) MkdirAll(n string, p os.FileMode) error {
	if h, _, _ := f.plan.hit(f.tag + ".MkdirAll"); h {
		return errInjected
	}
	return f.Fs.MkdirAll(n, p)
}
func (f *faultFs) Chtimes(n string, a, m time.Time) error {
	if h, _, _ := f.plan.hit(f.tag + ".Chtimes"); h {
		return errInjected
	}
	return f.Fs.Chtimes(n, a, m)
}
func (f *faultFs) Remove(n string) error {
	if h, _, _ := f.plan.hit(f.tag + ".Remove"); h {
		return errInjected
	}
	return f.Fs.Remove(n)
}
func (f *faultFile) Read(b []byte) (int, error) {
	if h, kind, k := f.plan.hit(f.tag + ".Read"); h {
		if kind == "short" { // early EOF: deliver at most k bytes together with EOF
			n, _ := f.File.Read(b)
			if k < n {
				n = k
			}
			return n, io.EOF
		}
		return 0, errInjected
	}
	return f.File.Read(b)
}
func (f *faultFile) Write(b []byte) (int, error) {
	if h, kind, k := f.plan.hit(f.tag + ".Write"); h {
		if kind == "short" { // short write: accept at most k bytes, report no error
			if k > len(b) {
				k = len(b)
			}
			n, _ := f.File.Write(b[:k])
			return n, nil
		}
		return 0, errInjected
	}
	return f.File.Write(b)
}
// (calls the unchanged copy never makes; a copy that starts making them gets faults there too)
func (f *faultFile) Seek(o int64, w int) (int64, error) {
	if h, _, _ := f.plan.hit(f.tag + ".Seek"); h {
		return 0, errInjected
	}
	return f.File.Seek(o, w)
}
func (f *faultFile) ReadAt(b []byte, o int64) (int, error) {
	if h, _, _ := f.plan.hit(f.tag + ".ReadAt"); h {
		return 0, errInjected
	}
	return f.File.ReadAt(b, o)
}
func (f *faultFile) WriteAt(b []byte, o int64) (int, error) {
	if h, _, _ := f.plan.hit(f.tag + ".WriteAt"); h {
		return 0, errInjected
	}
	return f.File.WriteAt(b, o)
}
func (f *faultFile) WriteString(s string) (int, error) {
	if h, _, _ := f.plan.hit(f.tag + ".WriteString"); h {
		return 0, errInjected
	}
	return f.File.WriteString(s)
}
func (f *faultFile) Truncate(n int64) error {
	if h, _, _ := f.plan.hit(f.tag + ".Truncate"); h {
		return errInjected
	}
	return f.File.Truncate(n)
}
func (f *faultFile) Sync() error {
	if h, _, _ := f.plan.hit(f.tag + ".Sync"); h {
		return errInjected
	}
	return f.File.Sync()
}
func (f *faultFile) Stat() (os.FileInfo, error) {
	if h, _, _ := f.plan.hit(f.tag + ".Stat"); h {
		return nil, errInjected
	}
	return f.File.Stat()
}
func (f *faultFile) Close() error {
	if h, _, _ := f.plan.hit(f.tag + ".Close"); h {
		f.File.Close()
		return errInjected
	}
	return f.File.Close()
}

type c12Scenario struct {
	name string
	run  func(base, layer afero.Fs, p string) error // the union/cache call that triggers the copy
	mk   func(base, layer afero.Fs) afero.Fs        // fault-free reader stack for "the next read"
}

var c12Scenarios = map[string]c12Scenario{
	"cow-openfile": {"cow-openfile", func(b, l afero.Fs, p string) error {
		f, err := afero.NewCopyOnWriteFs(b, l).OpenFile(p, os.O_RDWR, 0o644)
		if f != nil {
			f.Close()
		}
		return err
	}, func(b, l afero.Fs) afero.Fs { return afero.NewCopyOnWriteFs(b, l) }},
	"cow-chmod": {"cow-chmod", func(b, l afero.Fs, p string) error { return afero.NewCopyOnWriteFs(b, l).Chmod(p, 0o600) },
		func(b, l afero.Fs) afero.Fs { return afero.NewCopyOnWriteFs(b, l) }},
	"cache-open": {"cache-open", func(b, l afero.Fs, p string) error {
		f, err := afero.NewCacheOnReadFs(b, l, time.Hour).Open(p)
		if f != nil {
			f.Close()
		}
		return err
	}, func(b, l afero.Fs) afero.Fs { return afero.NewCacheOnReadFs(b, l, time.Hour) }},
	// the same with flags that create: whatever goes wrong around the copy, the cache must not be left with a
	// fresh empty file for a non-empty base file
	"cache-openfile-create": {"cache-openfile-create", func(b, l afero.Fs, p string) error {
		f, err := afero.NewCacheOnReadFs(b, l, time.Hour).OpenFile(p, os.O_RDWR|os.O_CREATE, 0o644)
		if f != nil {
			f.Close()
		}
		return err
	}, func(b, l afero.Fs) afero.Fs { return afero.NewCacheOnReadFs(b, l, time.Hour) }},
	"cow-openfile-create": {"cow-openfile-create", func(b, l afero.Fs, p string) error {
		f, err := afero.NewCopyOnWriteFs(b, l).OpenFile(p, os.O_WRONLY|os.O_CREATE, 0o644)
		if f != nil {
			f.Close()
		}
		return err
	}, func(b, l afero.Fs) afero.Fs { return afero.NewCopyOnWriteFs(b, l) }},
	// the metadata calls and Rename copy the file first as well: an incomplete copy is an error of the call
	"cache-chtimes": {"cache-chtimes", func(b, l afero.Fs, p string) error {
		tm := time.Now().Add(-time.Minute)
		return afero.NewCacheOnReadFs(b, l, time.Hour).Chtimes(p, tm, tm)
	}, func(b, l afero.Fs) afero.Fs { return afero.NewCacheOnReadFs(b, l, time.Hour) }},
	"cache-chmod": {"cache-chmod", func(b, l afero.Fs, p string) error { return afero.NewCacheOnReadFs(b, l, time.Hour).Chmod(p, 0o600) },
		func(b, l afero.Fs) afero.Fs { return afero.NewCacheOnReadFs(b, l, time.Hour) }},
	"cache-openfile": {"cache-openfile", func(b, l afero.Fs, p string) error {
		f, err := afero.NewCacheOnReadFs(b, l, time.Hour).OpenFile(p, os.O_RDONLY, 0)
		if f != nil {
			f.Close()
		}
		return err
	}, func(b, l afero.Fs) afero.Fs { return afero.NewCacheOnReadFs(b, l, time.Hour) }},
}

type c12Run struct {
	entry   string // none | old | full | other
	ok      bool
	copyLog []string // calls from base.Open to the end of the copy (without bf.Close)
	prefix  int
	total   int
	next    string // what the next fault-free read through the stack returns: base | other
	fired   bool
}

func c12Exec(scn string, size, seed, oldLen, oldSeed int, dirExists bool, absFault int, kind string, k int) c12Run {
	sc := c12Scenarios[scn]
	base, layer := afero.NewMemMapFs(), afero.NewMemMapFs()
	p := "/d/sub/file"
	content := genBytes(size, seed)
	base.MkdirAll("/d/sub", 0o755)
	afero.WriteFile(base, p, content, 0o644)
	var old []byte
	if oldLen >= 0 {
		old = genBytes(oldLen, oldSeed)
		layer.MkdirAll("/d/sub", 0o755)
		afero.WriteFile(layer, p, old, 0o644)
		// a stale cached copy: older than the duration, base newer
		layer.Chtimes(p, time.Now().Add(-3*time.Hour), time.Now().Add(-3*time.Hour))
		base.Chtimes(p, time.Now().Add(-time.Minute), time.Now().Add(-time.Minute))
	} else if dirExists {
		layer.MkdirAll("/d/sub", 0o755)
	}
	plan := &faultPlan{at: absFault, kind: kind, k: k}
	err := sc.run(&faultFs{base, "b", plan}, &faultFs{layer, "l", plan}, p)
	r := c12Run{ok: err == nil, total: plan.n, fired: plan.fired}
	got, gerr := afero.ReadFile(layer, p)
	switch {
	case gerr != nil:
		r.entry = "none"
	case bytes.Equal(got, content):
		r.entry = "full"
	case old != nil && bytes.Equal(got, old):
		r.entry = "old"
	default:
		r.entry = fmt.Sprintf("other(%d bytes)", len(got))
	}
	// segment of the log that belongs to the copy
	r.prefix = -1
	for i, c := range plan.log {
		if (c == "b.Open" || c == "b.OpenFile") && r.prefix < 0 {
			r.prefix = i
			plan.log[i] = "b.Open" // copyFileToLayer opens the base with OpenFile: the same first call of the copy
		}
	}
	if r.prefix >= 0 {
		for _, c := range plan.log[r.prefix:] {
			if c == "bf.Close" {
				continue
			}
			r.copyLog = append(r.copyLog, c)
			if c == "l.Chtimes" {
				break
			}
		}
		// after a clean-up the copy ends with l.Remove, lf.Close
		for i, c := range r.copyLog {
			if c == "l.Remove" && i+1 < len(r.copyLog) {
				r.copyLog = r.copyLog[:i+2]
				break
			}
		}
	}
	// the next fault-free read through the stack
	nb, nerr := afero.ReadFile(sc.mk(base, layer), p)
	if nerr == nil && bytes.Equal(nb, content) {
		r.next = "base"
	} else {
		r.next = fmt.Sprintf("other(%d bytes, err %v)", len(nb), nerr)
	}
	return r
}

func c12RunImpl(c corr.Case) []string {
	out := make([]string, 0, len(c.Lines))
	for _, line := range c.Lines {
		t := strings.Fields(line)
		out = append(out, guard(func() string {
			if t[0] == "case" {
				return "case"
			}
			size, seed, oldLen, oldSeed, dir, fidx, kind, k, scn := atoi(t[1]), atoi(t[2]), atoi(t[3]), atoi(t[4]), t[5] == "1", atoi(t[6]), t[7], atoi(t[8]), t[9]
			clean := c12Exec(scn, size, seed, oldLen, oldSeed, dir, -1, "", 0)
			abs := -1
			if fidx != -1 {
				abs = clean.prefix + fidx
				if fidx < -1 {
					abs = clean.prefix + fidx + 1 // −2 ↦ the call just before base.Open
				}
			}
			r := c12Exec(scn, size, seed, oldLen, oldSeed, dir, abs, kind, k)
			note := ""
			if r.next != "base" {
				note += " #NEXT-READ(" + r.next + ")"
			}
			inCopy := fidx >= 0 && fidx < len(clean.copyLog)
			if !inCopy && fidx != -1 {
				note += " #OUTSIDE"
			}
			return fmt.Sprintf("entry=%s ok=%v calls=%s%s", r.entry, r.ok, strings.Join(r.copyLog, ","), note)
		}))
	}
	return out
}

func c12Oracle(c corr.Case, impl []string) (string, int) {
	for i := range c.Lines {
		if i == 0 {
			continue
		}
		f := strings.Fields(impl[i])
		if impl[i] == "panic" {
			return "copy panics", i
		}
		entry, ok := strings.TrimPrefix(f[0], "entry="), f[1] == "ok=true"
		if entry != "none" && entry != "old" && entry != "full" {
			return "after the fault the layer holds a truncated or mixed file: " + f[0], i
		}
		if ok && entry != "full" && !strings.Contains(impl[i], "#OUTSIDE") {
			return "the copy reported success but the layer does not hold the complete file: " + f[0], i
		}
		// (a fault in the caller's own calls before the copy is decided or after it has completed is not a fault
		// "during a copy-up": only the state of the layer entry is judged for those)
		if k := strings.Index(impl[i], "#NEXT-READ"); k >= 0 && !strings.Contains(impl[i], "#OUTSIDE") {
			return "the next fault-free read does not return the base content: " + impl[i][k:], i
		}
	}
	return "", -1
}

func c12Exhaustive(tier string) []corr.Case {
	sizes := []int{0, 1, 32767, 32768, 32769, 100000}
	if tier == "thorough" {
		sizes = append(sizes, 65536, 1<<20)
	}
	var cases []corr.Case
	for scn := range c12Scenarios {
		for _, size := range sizes {
			for _, oldLen := range []int{-1, 7} {
				for _, dir := range []string{"0", "1"} {
					if oldLen >= 0 && dir == "0" {
						continue
					}
					if oldLen >= 0 && strings.HasPrefix(scn, "cow") {
						continue // for the union a name present in the overlay is never copied
					}
					clean := c12Exec(scn, size, 3, oldLen, 5, dir == "1", -1, "", 0)
					var lines []string
					mk := func(fidx int, kind string, k int) {
						lines = append(lines, fmt.Sprintf("copy %d 3 %d 5 %s %d %s %d %s", size, oldLen, dir, fidx, kind, k, scn))
					}
					mk(-1, "error", 0)
					// every call of the copy × every applicable kind; and the caller's own calls around it
					for fidx := -(clean.prefix + 1); fidx < clean.total-clean.prefix; fidx++ {
						if fidx == -1 {
							continue
						}
						mk(fidx, "error", 0)
						if fidx >= 0 && fidx < len(clean.copyLog) {
							switch clean.copyLog[fidx] {
							case "bf.Read", "lf.Write":
								for _, k := range []int{0, 1, 1000, 32767} {
									mk(fidx, "short", k)
								}
							}
						}
					}
					cases = append(cases, corr.Case{Lines: append([]string{"case " + scn}, lines...)})
				}
			}
		}
	}
	return cases
}

func C12() *corr.Engine {
	return &corr.Engine{
		ID: "C12", DriverEngine: "copyfault",
		Exhaustive: c12Exhaustive,
		RunImpl:    c12RunImpl, Oracle: c12Oracle,
		NonTrivial: func(c corr.Case, impl []string) bool {
			for _, l := range impl {
				if strings.Contains(l, "l.Create") && (strings.Contains(l, "ok=false")) {
					return true
				}
			}
			return false
		},
		Classify: func(c corr.Case, impl []string, hist map[string]int) {
			for i, l := range c.Lines {
				t := strings.Fields(l)
				if t[0] == "case" {
					hist["scenario:"+t[1]]++
					continue
				}
				hist["kind:"+t[7]]++
				f := strings.Fields(impl[i])
				hist[f[0]+" "+f[1]]++
				if strings.Contains(impl[i], "#OUTSIDE") {
					hist["fault-outside-copy"]++
				}
			}
		},
		Rule: "for 4 scenarios (CopyOnWriteFs.OpenFile / Chmod, CacheOnReadFs.Open / OpenFile) × sizes {0,1,32 KiB−1,32 KiB,32 KiB+1,100 KB[,64 KiB,1 MiB]} × with/without an older cached copy × parent directory present/absent: a fault at EVERY call index of the fault-free run (error; early EOF and short write with 4 lengths on reads/writes); a case (one scenario/size, all its fault positions) is non-trivial when some fault lands after Create succeeded; exhaustive",
		Signature: func(c corr.Case, impl []string, what string, line int) string {
			if line < 0 || line >= len(c.Lines) {
				line = 0
			}
			t := strings.Fields(c.Lines[line])
			call := "?"
			if len(t) > 9 {
				clean := c12Exec(t[9], atoi(t[1]), atoi(t[2]), atoi(t[3]), atoi(t[4]), t[5] == "1", -1, "", 0)
				if fi := atoi(t[6]); fi >= 0 && fi < len(clean.copyLog) {
					call = clean.copyLog[fi]
				}
				return "C12:" + t[9] + ":" + call + ":" + t[7]
			}
			return "C12:?"
		},
		CompareLine: func(impl, model string) bool {
			if strings.Contains(impl, "#OUTSIDE") {
				return true // faults in the caller's own calls are judged by the oracle only
			}
			return cowStrip(impl) == model
		},
	}
}
