package engines

// C08 on the operating system's file system: the io/fs adapter (IOFS) over a BasePathFs over OsFs,
// every entry point of the adapter — also those that do not go through Open — with names that leave
// the root. Line:
//
//	iofsos <stack> <method> <name-hex>     oracle only
//	   stack  ∈ bp (BasePathFs(OsFs, T/base)) | bpbp (BasePathFs(BasePathFs(OsFs, T), "/base")) | robp (ReadOnlyFs over bp)
//	   method ∈ readdir | readfile | open | stat | glob | sub | bp-readdir | bp-readfile | bp-stat
//
// The result is the error class followed by what came back (names listed, bytes read); the oracle
// looks for the canaries planted next to the root.

import (
	"fmt"
	"io"
	iofs "io/fs"
	"os"
	"path/filepath"
	"sort"
	"strings"

	"github.com/spf13/afero"

	"verifharness/corr"
)

const c08OSCanary = "CANARY-OS-"

var c08OSOutsideNames = []string{"s.txt", "b.txt", "secret", "basement", "base.txt", "other"}

func c08OSTree() (string, func()) {
	t, err := os.MkdirTemp("", "verif-c08os-")
	if err != nil {
		panic(err)
	}
	t, _ = filepath.EvalSymlinks(t)
	w := func(p, s string) {
		os.MkdirAll(filepath.Dir(filepath.Join(t, p)), 0o755)
		os.WriteFile(filepath.Join(t, p), []byte(s), 0o644)
	}
	w("base/in.txt", "inside")
	w("base/sub/deep.txt", "deep")
	w("secret/s.txt", c08OSCanary+"1")
	w("basement/b.txt", c08OSCanary+"2")
	w("base.txt", c08OSCanary+"3")
	w("other/s.txt", c08OSCanary+"4")
	return t, func() { os.RemoveAll(t) }
}

func c08OSOp(t []string) string {
	stack, method, name := t[1], t[2], string(corr.UnHex(t[3]))
	root, done := c08OSTree()
	defer done()
	var fs afero.Fs
	switch stack {
	case "bp":
		fs = afero.NewBasePathFs(afero.NewOsFs(), filepath.Join(root, "base"))
	case "bpbp":
		fs = afero.NewBasePathFs(afero.NewBasePathFs(afero.NewOsFs(), root), "/base")
	case "robp":
		fs = afero.NewReadOnlyFs(afero.NewBasePathFs(afero.NewOsFs(), filepath.Join(root, "base")))
	default:
		return "bad-op"
	}
	before := c08OSSnapshot(root)
	io1 := afero.NewIOFS(fs)
	var got []string
	var err error
	addEntries := func(es []iofs.DirEntry) {
		for _, e := range es {
			got = append(got, e.Name())
			if fi, e2 := e.Info(); e2 == nil {
				got = append(got, fmt.Sprintf("size=%d", fi.Size()))
			}
		}
	}
	switch method {
	case "readdir":
		var es []iofs.DirEntry
		es, err = io1.ReadDir(name)
		addEntries(es)
	case "readfile":
		var b []byte
		b, err = io1.ReadFile(name)
		got = append(got, string(b))
	case "open":
		var f iofs.File
		f, err = io1.Open(name)
		if err == nil {
			if rd, ok := f.(iofs.ReadDirFile); ok {
				if es, e2 := rd.ReadDir(-1); e2 == nil {
					addEntries(es)
				}
			}
			b, _ := io.ReadAll(f)
			got = append(got, string(b))
			f.Close()
		}
	case "stat":
		var fi iofs.FileInfo
		fi, err = io1.Stat(name)
		if err == nil {
			got = append(got, fi.Name(), fmt.Sprintf("size=%d", fi.Size()))
		}
	case "glob":
		var ms []string
		ms, err = io1.Glob(name)
		got = append(got, ms...)
		for _, m := range ms {
			if b, e2 := io1.ReadFile(m); e2 == nil {
				got = append(got, string(b))
			}
		}
	case "sub":
		var s iofs.FS
		s, err = io1.Sub(name)
		if err == nil {
			if es, e2 := iofs.ReadDir(s, "."); e2 == nil {
				addEntries(es)
				for _, e := range es {
					if b, e3 := iofs.ReadFile(s, e.Name()); e3 == nil {
						got = append(got, string(b))
					}
				}
			}
		}
	case "bp-readdir":
		var fis []os.FileInfo
		fis, err = afero.ReadDir(fs, name)
		for _, fi := range fis {
			got = append(got, fi.Name())
		}
	case "bp-readfile":
		var b []byte
		b, err = afero.ReadFile(fs, name)
		got = append(got, string(b))
	case "bp-stat":
		var fi os.FileInfo
		fi, err = fs.Stat(name)
		if err == nil {
			got = append(got, fi.Name())
		}
	default:
		return "bad-op"
	}
	leak := ""
	all := strings.Join(got, ",")
	if strings.Contains(all, c08OSCanary) {
		leak += " LEAK:read-outside"
	}
	for _, g := range got {
		for _, n := range c08OSOutsideNames {
			if g == n || strings.HasSuffix(g, "/"+n) {
				leak += " LEAK:listed-outside(" + n + ")"
			}
		}
	}
	if c08OSSnapshot(root) != before {
		leak += " LEAK:modified-outside"
	}
	sort.Strings(got)
	return errClass(err) + " " + corr.HexS(strings.Join(got, ",")) + leak
}

func c08OSSnapshot(root string) string {
	var sb strings.Builder
	filepath.Walk(root, func(p string, fi os.FileInfo, err error) error {
		if err != nil {
			return nil
		}
		fmt.Fprintf(&sb, "%s %v %d;", strings.TrimPrefix(p, root), fi.IsDir(), fi.Size())
		return nil
	})
	return sb.String()
}

var c08OSNames = []string{".", "..", "sub", "in.txt", "sub/deep.txt", "../secret", "../secret/s.txt", "sub/../../secret", "/../secret", "../basement", "../basement/b.txt",
	"../base.txt", "../base/in.txt", "sub/../../base/sub", "../other/s.txt", "/", "", "sub/..", "../../", "..\\secret", "*", "../*", "../secret/*", "sub/../../*/s.txt", "../base*"}

func c08OSCases() []string {
	var ls []string
	for _, st := range []string{"bp", "bpbp", "robp"} {
		for _, m := range []string{"readdir", "readfile", "open", "stat", "glob", "sub", "bp-readdir", "bp-readfile", "bp-stat"} {
			for _, n := range c08OSNames {
				if strings.Contains(n, "*") && m != "glob" {
					continue
				}
				ls = append(ls, fmt.Sprintf("iofsos %s %s %s", st, m, corr.HexS(n)))
			}
		}
	}
	return ls
}
