package engines

import (
	"io/fs"
)

type iofsDirEntry = fs.DirEntry
type iofsReadDirFile = fs.ReadDirFile

func iofsReadDir(f fs.FS, name string) ([]fs.DirEntry, error) { return fs.ReadDir(f, name) }

func iofsWalkDir(f fs.FS, root string, visit func(p string, isDir bool)) {
	fs.WalkDir(f, root, func(p string, d fs.DirEntry, err error) error {
		if err == nil {
			visit(p, d.IsDir())
		}
		return nil
	})
}
