package engines

import (
	"errors"
	"fmt"
	"io"
	"io/fs"
	"os"
	"path"
	"regexp"
	"sort"
	"strings"
	"testing/fstest"
	"unicode/utf8"

	"github.com/spf13/afero"

	"verifharness/corr"
)

// ---------------------------------------------------------------------------------------
// C15 — IOFS satisfies the io/fs contracts; FromIOFS is a faithful read-only view.
//
// Script (engine `iofs`):
//   case iofs <stack>         stack ∈ mem | bp | bpabs | ro | re | cow | from-<one of these>
//   src.mkdirall p perm | src.put p data | l.mkdirall p perm | l.put p data     build the tree
//   ready                     end of the set-up; nothing after it may change the backing tree
//   io.open p | io.stat p | io.readdir p | io.readfile p | io.glob pat          IOFS methods
//   io.sub d <open|stat|readdir|readfile|glob> p                                IOFS.Sub(d), then the method
//   f.read k n | f.readat k n off | f.seek k off wh | f.stat k | f.readdir k n | f.close k   fs.File k
//   <Fs-level line of fsscript.go>       acts on the afero view (FromIOFS for the from-* stacks)
//   fstest <names>            testing/fstest.TestFS on NewIOFS(view) with the expected names
//   snapshot                  dump of the backing MemMapFs (both layers for cow)
//
// Oracle (independent of the Lean model): fstest passes; an io/fs-invalid name is answered with
// ErrInvalid by Open and ReadFile (the entry points testing/fstest probes with bad names; ReadDir,
// Stat, Glob and Sub hand their argument to the backing file system unvalidated — afero's own
// tests walk from the root "" — so invalid names are not judged there, only that nothing
// panics or changes); on valid names Stat/ReadDir/ReadFile/Glob/Sub give what the tree written by
// the set-up holds (sorted listings; Glob = path.Match over the tree's paths); pages of
// ReadDir(n) partition the listing, are never longer than asked, EOF exactly at the end;
// Read / Seek / ReadAt follow the flat byte array; every optimised method agrees with the
// generic io/fs helper run on an Open-only view of the same file system (annotations #…-GENERIC);
// FromIOFS: every mutator is a permission error and the backing tree's snapshot never changes.
// ---------------------------------------------------------------------------------------

var c15Re = regexp.MustCompile(`\.txt$`)

type c15Stack struct {
	name  string
	mems  []afero.Fs // backing MemMapFs objects, for snapshots
	src   afero.Fs   // `src.` lines
	layer afero.Fs   // `l.` lines (cow)
	view  afero.Fs   // the afero-level file system under test
	io    fs.FS      // NewIOFS(view)
}

func c15Base(name string) (view, src, layer afero.Fs, mems []afero.Fs) {
	switch name {
	case "mem":
		m := afero.NewMemMapFs()
		return m, m, nil, []afero.Fs{m}
	case "bp":
		m := afero.NewMemMapFs()
		m.MkdirAll("base", 0o755)
		b := afero.NewBasePathFs(m, "base")
		return b, b, nil, []afero.Fs{m}
	case "bpabs":
		m := afero.NewMemMapFs()
		m.MkdirAll("/base", 0o755)
		b := afero.NewBasePathFs(m, "/base")
		return b, b, nil, []afero.Fs{m}
	case "ro":
		m := afero.NewMemMapFs()
		return afero.NewReadOnlyFs(m), m, nil, []afero.Fs{m}
	case "re":
		m := afero.NewMemMapFs()
		return afero.NewRegexpFs(m, c15Re), m, nil, []afero.Fs{m}
	case "cow":
		b, l := afero.NewMemMapFs(), afero.NewMemMapFs()
		return afero.NewCopyOnWriteFs(b, l), b, l, []afero.Fs{b, l}
	case "cowre": // the same union over a base that offers no Lstat of its own (a RegexpFs that lets every name through)
		b, l := afero.NewMemMapFs(), afero.NewMemMapFs()
		return afero.NewCopyOnWriteFs(afero.NewRegexpFs(b, regexp.MustCompile(``)), l), b, l, []afero.Fs{b, l}
	}
	panic("unknown stack " + name)
}

func c15New(name string) *c15Stack {
	s := &c15Stack{name: name}
	inner := strings.TrimPrefix(name, "from-")
	s.view, s.src, s.layer, s.mems = c15Base(inner)
	if inner != name {
		s.view = afero.FromIOFS{FS: afero.NewIOFS(s.view)}
	}
	s.io = afero.NewIOFS(s.view)
	return s
}

func c15IsFrom(stack string) bool { return strings.HasPrefix(stack, "from-") }

// onlyOpen hides every optional io/fs interface: the generic helpers then go through Open.
type onlyOpen struct{ f fs.FS }

func (o onlyOpen) Open(name string) (fs.File, error) { return o.f.Open(name) }

// c15GlobComparable: the patterns on which Glob is compared with the generic version and with the
// tree: io/fs path shapes whose elements are well-formed one by one (no separator inside a
// character class) and free of escapes (afero.Glob follows path/filepath, where the backslash
// is not a metacharacter of hasMeta)
func c15GlobComparable(pat string) bool {
	if !fs.ValidPath(pat) {
		return false
	}
	es := strings.Split(pat, "/")
	for i, e := range es {
		if _, err := path.Match(e, ""); err != nil {
			return false
		}
		// an escape is interpreted wherever the element is matched against a listing, which is the case as soon as
		// the pattern up to and including that element has one of * ? [ (otherwise afero.Glob, like the
		// path/filepath it follows, takes the prefix literally)
		if strings.Contains(e, `\`) && !strings.ContainsAny(strings.Join(es[:i+1], "/"), "*?[") {
			return false
		}
	}
	return true
}

func c15Err(err error) string {
	if err == nil {
		return "-"
	}
	if errors.Is(err, path.ErrBadPattern) {
		return "badpattern"
	}
	return ErrClass(err)
}

func c15Entries(es []fs.DirEntry) string {
	var ns []string
	for _, e := range es {
		k := "/f"
		if e.IsDir() {
			k = "/d"
		}
		ns = append(ns, corr.HexS(e.Name())+k)
	}
	return strings.Join(ns, ",")
}

func c15Names(ns []string) string {
	var hs []string
	for _, n := range ns {
		hs = append(hs, corr.HexS(n))
	}
	return strings.Join(hs, ",")
}

// one IOFS-level method on any fs.FS, through the optional interface if there is one and the
// generic io/fs helper otherwise (that is what fs.Stat, fs.ReadDir, fs.ReadFile, fs.Glob do)
func c15Method(f fs.FS, op, name string, files *[]fs.File) string {
	switch op {
	case "open":
		h, err := f.Open(name)
		if files != nil {
			*files = append(*files, h) // handles are numbered by open lines; a failed open leaves a nil slot
		}
		if err != nil {
			return "err:" + c15Err(err)
		}
		if files == nil {
			h.Close()
			return "f=?"
		}
		return fmt.Sprintf("f=%d", len(*files)-1)
	case "stat":
		fi, err := fs.Stat(f, name)
		if err != nil {
			return "err:" + c15Err(err)
		}
		return infoLine(fi)
	case "readdir":
		es, err := fs.ReadDir(f, name)
		if err != nil {
			return "err:" + c15Err(err)
		}
		return "infos=" + c15Entries(es) + " err:-"
	case "readfile":
		b, err := fs.ReadFile(f, name)
		if err != nil {
			return "err:" + c15Err(err)
		}
		return "bytes=" + corr.Hex(b) + " err:-"
	case "glob":
		ns, err := fs.Glob(f, name)
		if err != nil {
			return "err:" + c15Err(err)
		}
		return "names=" + c15Names(ns) + " err:-"
	}
	return "bad-op"
}

func c15FileOp(files []fs.File, t []string) string {
	k := atoi(t[1])
	if k >= len(files) || files[k] == nil {
		return "err:inval"
	}
	f := files[k]
	switch t[0] {
	case "f.read":
		b := make([]byte, atoi(t[2]))
		n, err := f.Read(b)
		return fmt.Sprintf("bytes=%s err:%s", corr.Hex(b[:n]), c15Err(err))
	case "f.readat":
		ra, ok := f.(io.ReaderAt)
		if !ok {
			return "err:unsupported"
		}
		b := make([]byte, atoi(t[2]))
		n, err := ra.ReadAt(b, atoi64(t[3]))
		if n < 0 {
			n = 0
		}
		return fmt.Sprintf("bytes=%s err:%s", corr.Hex(b[:n]), c15Err(err))
	case "f.seek":
		sk, ok := f.(io.Seeker)
		if !ok {
			return "err:unsupported"
		}
		p, err := sk.Seek(atoi64(t[2]), atoi(t[3]))
		if err != nil {
			return "err:" + c15Err(err)
		}
		return fmt.Sprintf("pos=%d", p)
	case "f.stat":
		fi, err := f.Stat()
		if err != nil {
			return "err:" + c15Err(err)
		}
		return infoLine(fi)
	case "f.readdir":
		rd, ok := f.(fs.ReadDirFile)
		if !ok {
			return "err:unsupported"
		}
		es, err := rd.ReadDir(atoi(t[2]))
		if err != nil && c15Err(err) != "eof" {
			return "err:" + c15Err(err)
		}
		return "infos=" + c15Entries(es) + " err:" + c15Err(err)
	case "f.close":
		return fsErr(f.Close())
	}
	return "bad-op"
}

func c15Snapshot(s *c15Stack) string {
	var parts []string
	for _, m := range s.mems {
		parts = append(parts, SnapLine(SnapshotMem(m)))
	}
	return strings.Join(parts, " || ")
}

func c15Put(f afero.Fs, name string, data []byte) string {
	return fsErr(afero.WriteFile(f, name, data, 0o644))
}

// c15ReadsAgree: ReadFile vs Open+Read (whole, and byte-wise) vs ReadAt vs Seek+Read on one file
func c15ReadsAgree(f fs.FS, name string, want []byte) string {
	h, err := f.Open(name)
	if err != nil {
		return "open:" + c15Err(err)
	}
	defer h.Close()
	all, err := io.ReadAll(h)
	if err != nil || string(all) != string(want) {
		return fmt.Sprintf("Open+ReadAll gives %d bytes err:%s, ReadFile %d bytes", len(all), c15Err(err), len(want))
	}
	if ra, ok := h.(io.ReaderAt); ok {
		b := make([]byte, len(want)+1)
		n, err := ra.ReadAt(b, 0)
		if n != len(want) || string(b[:n]) != string(want) || err != io.EOF {
			return fmt.Sprintf("ReadAt(%d bytes, 0) = %d, err:%s; file has %d bytes", len(b), n, c15Err(err), len(want))
		}
		for _, off := range []int{0, 1, len(want) / 2, len(want) - 1, len(want)} {
			if off < 0 || off > len(want) {
				continue
			}
			b := make([]byte, 3)
			n, err := ra.ReadAt(b, int64(off))
			exp := want[off:]
			if len(exp) > 3 {
				exp = exp[:3]
			}
			if string(b[:n]) != string(exp) || (len(exp) < 3) != (err == io.EOF) {
				return fmt.Sprintf("ReadAt(3 bytes, %d) = %x err:%s, ReadFile has %x there", off, b[:n], c15Err(err), exp)
			}
			if sk, ok := h.(io.Seeker); ok {
				if p, err := sk.Seek(int64(off), io.SeekStart); err != nil || p != int64(off) {
					return fmt.Sprintf("Seek(%d, start) = %d err:%s", off, p, c15Err(err))
				}
				b2 := make([]byte, 3)
				n2, _ := io.ReadFull(h, b2)
				if string(b2[:n2]) != string(exp) {
					return fmt.Sprintf("Seek(%d)+Read = %x, ReadAt there = %x", off, b2[:n2], exp)
				}
				if p, err := sk.Seek(0, io.SeekCurrent); err != nil || p != int64(off+n2) {
					return fmt.Sprintf("offset after Seek(%d)+Read(%d bytes) is %d", off, n2, p)
				}
			}
		}
	}
	return ""
}

func c15RunImpl(c corr.Case) []string {
	var st *c15Stack
	var r *Runner
	var files []fs.File
	out := make([]string, 0, len(c.Lines))
	defer func() {
		if r != nil {
			r.CloseAll()
		}
		for _, f := range files {
			if f != nil {
				func() { defer func() { recover() }(); f.Close() }()
			}
		}
	}()
	for _, line := range c.Lines {
		t := strings.Fields(line)
		out = append(out, guard(func() string {
			arg := func(i int) string { return string(corr.UnHex(t[i])) }
			switch t[0] {
			case "case":
				st = c15New(t[2])
				r = NewRunner(st.view)
				r.Src = st.src
				if st.layer != nil {
					r.Alt = map[string]afero.Fs{"l": st.layer}
				}
				files = nil
				return "case"
			case "ready":
				return "ready"
			case "snapshot":
				return c15Snapshot(st)
			case "src.put":
				return c15Put(st.src, arg(1), corr.UnHex(t[2]))
			case "l.put":
				return c15Put(st.layer, arg(1), corr.UnHex(t[2]))
			case "fstest":
				// the expected names are those of the tree the set-up lines describe
				var names []string
				_, view := c15View(c)
				for p := range view {
					if p != "." {
						names = append(names, p)
					}
				}
				sort.Strings(names)
				if err := fstest.TestFS(st.io, names...); err != nil {
					lines := strings.Split(err.Error(), "\n")
					msg := lines[0]
					if len(lines) > 1 {
						msg = lines[1]
					}
					return "fstest=fail " + strings.TrimSpace(msg)
				}
				return "fstest=ok"
			case "io.open", "io.stat", "io.readdir", "io.readfile", "io.glob":
				op, name := strings.TrimPrefix(t[0], "io."), arg(1)
				res := c15Method(st.io, op, name, &files)
				note := ""
				// the optimised method against the generic helper on an Open-only view
				if op != "open" && fs.ValidPath(name) && !(op == "glob" && !c15GlobComparable(name)) {
					if g := c15Method(onlyOpen{st.io}, op, name, nil); g != res {
						note += " #" + strings.ToUpper(op) + "-GENERIC(" + g + ")"
					}
				}
				if op == "readfile" && strings.HasPrefix(res, "bytes=") {
					b, _ := fs.ReadFile(st.io, name)
					if d := c15ReadsAgree(st.io, name, b); d != "" {
						note += " #READS-DISAGREE(" + d + ")"
					}
				}
				return res + note
			case "io.sub":
				d, op, name := arg(1), t[2], arg(3)
				sub, err := st.io.(fs.SubFS).Sub(d)
				res := ""
				if err != nil {
					res = "err:" + c15Err(err)
					if op == "open" {
						files = append(files, nil)
					}
				} else {
					res = c15Method(sub, op, name, &files)
				}
				// the generic fs.Sub over an Open-only view (valid d only: an invalid one is refused)
				note := ""
				// (the generic subFS answers Glob(".") with "." without looking; not compared)
				if fs.ValidPath(d) && fs.ValidPath(name) && op != "open" && !(op == "glob" && (name == "." || !c15GlobComparable(name))) {
					gsub, gerr := fs.Sub(onlyOpen{st.io}, d)
					g := ""
					if gerr != nil {
						g = "err:" + c15Err(gerr)
					} else {
						g = c15Method(gsub, op, name, nil)
					}
					if g != res {
						note = " #SUB-GENERIC(" + g + ")"
					}
				}
				return res + note
			case "f.read", "f.readat", "f.seek", "f.stat", "f.readdir", "f.close":
				return c15FileOp(files, t)
			case "open", "openfile":
				var f afero.File
				var err error
				if t[0] == "open" {
					f, err = st.view.Open(arg(1))
				} else {
					f, err = st.view.OpenFile(arg(1), atoi(t[2]), os.FileMode(atoi(t[3])))
				}
				if err != nil || f == nil {
					r.H = append(r.H, nil) // numbered by open lines
					return "err:" + c15Err(err)
				}
				r.H = append(r.H, f)
				return fmt.Sprintf("h=%d", len(r.H)-1)
			}
			if strings.HasPrefix(t[0], "h.") && (atoi(t[1]) >= len(r.H) || r.H[atoi(t[1])] == nil) {
				return "err:inval"
			}
			return r.Exec(t)
		}))
	}
	return out
}

// ---- the specification side of the oracle: the tree the set-up lines describe ----

type c15Node struct {
	dir  bool
	data []byte
}

type c15Handle struct {
	path   string
	pos    int64
	seen   map[string]bool // names handed out by the listing so far
	done   bool            // listing reported EOF / was drained
	closed bool
}

func c15View(c corr.Case) (string, map[string]*c15Node) {
	stack := strings.Fields(c.Lines[0])[2]
	base, layer := map[string]*c15Node{".": {dir: true}}, map[string]*c15Node{".": {dir: true}}
	mkdirs := func(m map[string]*c15Node, p string) {
		for p != "." && p != "/" && p != "" {
			if _, ok := m[p]; !ok {
				m[p] = &c15Node{dir: true}
			}
			p = path.Dir(p)
		}
	}
	for _, line := range c.Lines[1:] {
		t := strings.Fields(line)
		if t[0] == "ready" {
			break
		}
		m := base
		if strings.HasPrefix(t[0], "l.") {
			m = layer
		}
		switch strings.TrimPrefix(strings.TrimPrefix(t[0], "src."), "l.") {
		case "mkdirall":
			mkdirs(m, string(corr.UnHex(t[1])))
		case "put":
			p := string(corr.UnHex(t[1]))
			mkdirs(m, path.Dir(p))
			m[p] = &c15Node{data: corr.UnHex(t[2])}
		}
	}
	view := map[string]*c15Node{}
	for p, n := range base {
		view[p] = n
	}
	for p, n := range layer {
		view[p] = n
	}
	if strings.TrimPrefix(stack, "from-") == "re" {
		for p, n := range view {
			if !n.dir && !c15Re.MatchString(p) {
				delete(view, p)
			}
		}
	}
	return stack, view
}

func c15Children(view map[string]*c15Node, dir string) []string {
	var ns []string
	for p := range view {
		if p != "." && path.Dir(p) == dir {
			ns = append(ns, path.Base(p))
		}
	}
	sort.Strings(ns)
	return ns
}

func c15Listing(view map[string]*c15Node, dir string) string {
	var es []string
	for _, n := range c15Children(view, dir) {
		k := "/f"
		if view[path.Join(dir, n)].dir {
			k = "/d"
		}
		es = append(es, corr.HexS(n)+k)
	}
	return strings.Join(es, ",")
}

func c15Valid(name string) bool { return utf8.ValidString(name) && fs.ValidPath(name) }

// what an IOFS method must answer on the specification tree ("" = nothing demanded)
func c15Want(view map[string]*c15Node, op, name, got string) string {
	if op == "glob" {
		if _, err := path.Match(name, ""); err != nil {
			if got != "err:badpattern" {
				return "a malformed pattern must be reported as path.ErrBadPattern"
			}
			return ""
		}
		if !c15GlobComparable(name) {
			return "" // patterns that are not io/fs path shapes, or use escapes: not compared
		}
		var want []string
		for p := range view {
			if ok, _ := path.Match(name, p); ok && (p != "." || name == ".") {
				want = append(want, p)
			}
		}
		sort.Strings(want)
		gotNames := pageNames(got)
		sorted := append([]string{}, gotNames...)
		var wh []string
		for _, w := range want {
			wh = append(wh, corr.HexS(w))
		}
		sort.Strings(sorted)
		sort.Strings(wh)
		if !strings.HasPrefix(got, "names=") || strings.Join(sorted, ",") != strings.Join(wh, ",") {
			return fmt.Sprintf("Glob must return the %d paths of the tree that match the pattern", len(want))
		}
		return ""
	}
	if !c15Valid(name) {
		if (op == "open" || op == "readfile") && got != "err:inval" {
			return "an invalid io/fs path must be rejected with ErrInvalid"
		}
		return ""
	}
	n, ok := view[name]
	if !ok {
		if got != "err:notexist" {
			return "a name that is not in the tree must be reported as not existing"
		}
		return ""
	}
	switch op {
	case "open":
		if !strings.HasPrefix(got, "f=") && !strings.HasPrefix(got, "h=") {
			return "an existing name must open"
		}
	case "stat":
		if !strings.HasPrefix(got, "info ") {
			return "an existing name must stat"
		}
		if !strings.Contains(got, fmt.Sprintf(" dir=%v ", n.dir)) {
			return "Stat reports the wrong kind"
		}
		if !n.dir && !strings.Contains(got, fmt.Sprintf(" size=%d ", len(n.data))) {
			return "Stat reports the wrong size"
		}
		if name != "." && !strings.Contains(got, "name="+corr.HexS(path.Base(name))+" ") {
			return "Stat reports the wrong name"
		}
	case "readdir":
		if !n.dir {
			if !strings.HasPrefix(got, "err:") {
				return "ReadDir of a regular file must fail"
			}
			return ""
		}
		if want := "infos=" + c15Listing(view, name) + " err:-"; got != want {
			return "ReadDir must return exactly the directory's entries sorted by name (want " + want + ")"
		}
	case "readfile":
		if n.dir {
			return ""
		}
		if want := "bytes=" + corr.Hex(n.data) + " err:-"; got != want {
			return "ReadFile must return the file's bytes"
		}
	}
	return ""
}

func c15SubName(d, name string) string {
	switch {
	case name == ".":
		return d
	case d == ".":
		return name
	}
	return d + "/" + name
}

var c15Mutators = map[string]bool{"create": true, "mkdir": true, "mkdirall": true, "remove": true, "removeall": true,
	"rename": true, "chmod": true, "chown": true, "chtimes": true}

func c15Oracle(c corr.Case, impl []string) (string, int) {
	stack, view := c15View(c)
	fh := map[int]*c15Handle{} // fs.File handles
	ah := map[int]*c15Handle{} // afero handles of the view (from-* stacks)
	ready := false
	firstSnap := ""
	nf, na := 0, 0
	for i, line := range c.Lines {
		t := strings.Fields(line)
		got := cowStrip(impl[i])
		if got == "panic" {
			return "call panics: " + t[0], i
		}
		if k := strings.Index(impl[i], " #"); k >= 0 {
			tag := impl[i][k+2:]
			return t[0] + ": the method disagrees with the generic io/fs version on an Open-only view of the same file system: " + tag, i
		}
		arg := func(j int) string { return string(corr.UnHex(t[j])) }
		switch {
		case t[0] == "ready":
			ready = true
			continue
		case !ready:
			if (strings.HasPrefix(t[0], "src.") || strings.HasPrefix(t[0], "l.")) && got != "ok" {
				return "set-up line failed: " + got, i
			}
			continue
		case t[0] == "snapshot":
			if firstSnap == "" {
				firstSnap = got
			} else if got != firstSnap {
				return "the backing tree changed although only io/fs reads and refused mutators were issued", i
			}
			continue
		case t[0] == "fstest":
			if got != "fstest=ok" {
				return "testing/fstest.TestFS rejects " + stack + ": " + strings.TrimPrefix(got, "fstest=fail "), i
			}
			continue
		}
		// handle-level lines
		hl := func(tab map[int]*c15Handle, op string) (string, int) {
			h := tab[atoi(t[1])]
			if h == nil || h.closed {
				return "", -1
			}
			n := view[h.path]
			if n == nil {
				return "", -1
			}
			switch op {
			case "close":
				h.closed = true
				if got != "ok" {
					return "Close reports an error", i
				}
			case "stat":
				if w := c15Want(view, "stat", h.path, got); w != "" {
					return "File." + w, i
				}
			case "name":
				if got != "str="+corr.HexS(h.path) {
					return "FromIOFS file does not report the name it was opened with", i
				}
			case "sync":
				if got != "ok" {
					return "Sync of a read-only view fails", i
				}
			case "write", "writeat", "trunc", "writestring":
				if !strings.HasSuffix(got, "err:perm") {
					return "a write through FromIOFS must be a permission error", i
				}
			case "read", "readat":
				if n.dir {
					return "", -1
				}
				ln := atoi(t[2])
				off := h.pos
				if op == "readat" {
					off = atoi64(t[3])
					if off < 0 {
						if strings.HasSuffix(got, "err:-") {
							return "ReadAt with a negative offset must fail", i
						}
						return "", -1
					}
				}
				var exp []byte
				if off < int64(len(n.data)) {
					exp = n.data[off:]
					if len(exp) > ln {
						exp = exp[:ln]
					}
				}
				if !strings.HasPrefix(got, "bytes="+corr.Hex(exp)+" ") {
					return fmt.Sprintf("%s(%d bytes) at offset %d must return %q", op, ln, off, exp), i
				}
				if ln > 0 {
					isEOF := strings.HasSuffix(got, "err:eof")
					if op == "read" {
						if (off >= int64(len(n.data))) != isEOF {
							return "Read must report EOF exactly when nothing is left", i
						}
						h.pos += int64(len(exp))
					} else if (off+int64(ln) > int64(len(n.data))) != isEOF || (!isEOF && !strings.HasSuffix(got, "err:-")) {
						return "ReadAt must report EOF exactly on a short read", i
					}
				}
			case "seek":
				off, wh := atoi64(t[2]), atoi(t[3])
				if n.dir || wh > 2 {
					return "", -1
				}
				target := []int64{off, h.pos + off, int64(len(n.data)) + off}[wh]
				if target < 0 {
					if !strings.HasPrefix(got, "err:") {
						return "Seek to a negative position must fail", i
					}
					return "", -1
				}
				if got != fmt.Sprintf("pos=%d", target) {
					return fmt.Sprintf("Seek must answer %d", target), i
				}
				h.pos = target
			case "readdir", "readdirnames":
				if !n.dir {
					if !strings.HasPrefix(got, "err:") {
						return "ReadDir on a regular file must fail", i
					}
					return "", -1
				}
				cnt := atoi(t[2])
				if !strings.HasPrefix(got, "infos=") && !strings.HasPrefix(got, "names=") {
					return "ReadDir(n) on a directory fails", i
				}
				eof := strings.HasSuffix(got, "err:eof")
				page := pageNames(got)
				all := c15Children(view, h.path)
				if cnt > 0 && len(page) > cnt {
					return fmt.Sprintf("ReadDir(%d) returned %d entries", cnt, len(page)), i
				}
				for _, e := range page {
					parts := strings.Split(e, "/")
					name := string(corr.UnHex(parts[0]))
					cn, ok := view[path.Join(h.path, name)]
					if !ok {
						return "ReadDir(n) lists a name that is not in the directory: " + name, i
					}
					if len(parts) > 1 && (parts[1] == "d") != cn.dir {
						return "ReadDir(n) reports the wrong kind for " + name, i
					}
					if h.seen[name] {
						return "ReadDir(n) hands out an entry twice: " + name, i
					}
					h.seen[name] = true
				}
				left := len(all) - len(h.seen)
				switch {
				case cnt <= 0:
					if eof {
						return "ReadDir(n<=0) must not report EOF", i
					}
					if left != 0 {
						return fmt.Sprintf("ReadDir(%d) left out %d entries", cnt, left), i
					}
				case eof:
					if len(page) > 0 || left != 0 {
						return fmt.Sprintf("ReadDir(%d) reports EOF with %d entries in the page and %d not yet listed", cnt, len(page), left), i
					}
				default:
					// a positive count and no error: the page holds the next min(n, left) entries. Behind a
					// RegexpFs a page is the filtered image of a page of the source: it may be shorter, even
					// empty, before the end — testing/fstest accepts that, so it is not judged here.
					if want := min(cnt, left+len(page)); len(page) != want && !strings.HasSuffix(stack, "re") {
						return fmt.Sprintf("ReadDir(%d) returned %d entries with a nil error, %d were left", cnt, len(page), left+len(page)), i
					}
				}
			}
			return "", -1
		}
		switch {
		case strings.HasPrefix(t[0], "f."):
			if w, l := hl(fh, strings.TrimPrefix(t[0], "f.")); w != "" {
				return w, l
			}
		case strings.HasPrefix(t[0], "h."):
			if w, l := hl(ah, strings.TrimPrefix(t[0], "h.")); w != "" {
				return w, l
			}
		case t[0] == "io.sub":
			d, op, name := arg(1), t[2], arg(3)
			if !c15Valid(d) {
				if op == "open" {
					nf++
				}
				continue // Sub hands dir to BasePathFs as it is: not judged
			}
			full := c15SubName(d, name)
			if op == "glob" {
				continue // compared with the generic version only
			}
			if !c15Valid(name) {
				full = "/" // any invalid name: Open and ReadFile of the sub file system must refuse it
			}
			if w := c15Want(view, op, full, got); w != "" && !(op == "stat" && name == "." && strings.Contains(w, "wrong name")) {
				return "Sub(" + d + ")." + op + ": " + w, i
			}
			if op == "open" {
				if strings.HasPrefix(got, "f=") {
					fh[nf] = &c15Handle{path: full, seen: map[string]bool{}}
				}
				nf++
			}
		case strings.HasPrefix(t[0], "io."):
			op, name := strings.TrimPrefix(t[0], "io."), arg(1)
			if w := c15Want(view, op, name, got); w != "" {
				return "IOFS." + op + ": " + w, i
			}
			if op == "open" {
				if strings.HasPrefix(got, "f=") {
					fh[nf] = &c15Handle{path: name, seen: map[string]bool{}}
				}
				nf++
			}
		case c15Mutators[t[0]]:
			if c15IsFrom(stack) && got != "err:perm" {
				return "FromIOFS." + t[0] + " must be refused with a permission error", i
			}
		case t[0] == "open" || t[0] == "openfile" || t[0] == "stat":
			if t[0] != "stat" {
				na++
			}
			if !c15IsFrom(stack) {
				continue
			}
			op := t[0]
			if op == "openfile" {
				op = "open"
				// a request for write access may be served read-only (as now) or refused outright:
				// either way nothing is mutated, which is what the property asks for
				if atoi(t[2])&(os.O_WRONLY|os.O_RDWR|os.O_APPEND|os.O_CREATE|os.O_TRUNC) != 0 && got == "err:perm" {
					continue
				}
			}
			if w := c15Want(view, op, arg(1), got); w != "" {
				return "FromIOFS." + t[0] + ": " + w, i
			}
			if op == "open" && strings.HasPrefix(got, "h=") {
				ah[na-1] = &c15Handle{path: arg(1), seen: map[string]bool{}}
			}
		}
	}
	return "", -1
}

// ---- generators ----

type c15Tree struct {
	dirs  []string          // every directory, parents first
	files map[string][]byte // every regular file
	order []string          // file names in generation order
	layer map[string]bool   // cow: which entries live in the overlay (files: overlay copy wins)
	both  map[string]bool   // cow: entries present in both layers
}

func c15Content(r *corr.Rand, name string) []byte {
	n := corr.Pick(r, []int{0, 0, 1, 2, 5, 17, 100, 700, 3000})
	b := make([]byte, n)
	for i := range b {
		b[i] = byte(r.Intn(256))
	}
	if n >= 5 {
		copy(b, name)
	}
	return b
}

var c15Segs = []string{"a", "b", "c", "d.txt", "e.txt", "f.dat", "x", "y.txt", "sub", "UP", "z-1", "a b", "a.b", "..x", "x..", ".h", "é.txt", "日本", "aa", "ab.txt", "s*r"} // no ']': fstest itself builds a malformed glob pattern for such a name

func c15RandTree(r *corr.Rand, maxDepth, maxFan int) *c15Tree {
	t := &c15Tree{files: map[string][]byte{}, layer: map[string]bool{}, both: map[string]bool{}}
	var rec func(dir string, depth int)
	rec = func(dir string, depth int) {
		fan := r.Intn(maxFan + 1)
		used := map[string]bool{}
		for k := 0; k < fan; k++ {
			seg := corr.Pick(r, c15Segs)
			if used[seg] {
				continue
			}
			used[seg] = true
			p := seg
			if dir != "." {
				p = dir + "/" + seg
			}
			if depth < maxDepth && r.Chance(40) && !strings.Contains(seg, ".txt") {
				t.dirs = append(t.dirs, p)
				if !r.Chance(15) { // some directories stay empty
					rec(p, depth+1)
				}
			} else {
				t.files[p] = c15Content(r, p)
				t.order = append(t.order, p)
			}
		}
	}
	rec(".", 1)
	if len(t.order) == 0 {
		t.files["only.txt"] = []byte("not empty")
		t.order = append(t.order, "only.txt")
	}
	return t
}

// set-up lines of a tree for a stack; for cow the entries are spread over the two layers
func c15Setup(stack string, t *c15Tree, r *corr.Rand) []string {
	h := corr.HexS
	inner := strings.TrimPrefix(stack, "from-")
	var l []string
	place := func(p string) []string { // which prefixes receive this entry
		if inner != "cow" && inner != "cowre" {
			return []string{"src."}
		}
		if r == nil {
			return []string{[]string{"src.", "l."}[len(p)%2]}
		}
		switch r.Intn(3) {
		case 0:
			return []string{"src."}
		case 1:
			return []string{"l."}
		}
		return []string{"src.", "l."}
	}
	for _, d := range t.dirs {
		for _, pre := range place(d) {
			l = append(l, pre+"mkdirall "+h(d)+" 493")
		}
	}
	for _, f := range t.order {
		ps := place(f)
		for k, pre := range ps {
			data := t.files[f]
			if len(ps) == 2 && k == 0 {
				data = append([]byte("stale base copy "), data...) // the overlay's copy is the visible one
			}
			l = append(l, pre+"put "+h(f)+" "+corr.Hex(data))
		}
	}
	return l
}

var c15Stacks = []string{"mem", "bp", "bpabs", "ro", "re", "cow", "cowre", "from-mem", "from-bp", "from-ro", "from-re", "from-cow"}

func c15FixedTree() *c15Tree {
	t := &c15Tree{files: map[string][]byte{}, layer: map[string]bool{}, both: map[string]bool{}}
	t.dirs = []string{"a", "a/a", "a/b", "a/b/c", "e", "a/empty", "e/deep", "e/deep/er"}
	add := func(p, d string) { t.files[p] = []byte(d); t.order = append(t.order, p) }
	add("a/a/a", "x")
	add("a/aa", "yy")
	add("aa", "zzz")
	add("a/x.txt", "hello")
	add("a/h.dat", "hidden-by-re")
	add("a/b/y.txt", "")
	add("a/b/c/z.txt", "zzzzzzzzzz")
	add("a/b/c/k.dat", "k")
	add("a/b/c/l.dat", "l")
	add("a/b/c/m.txt", "m")
	add("top.txt", "t")
	add("e/q.txt", "qq")
	add("e/deep/er/w.txt", strings.Repeat("0123456789", 60))
	add("b", "")
	return t
}

func c15Gen(alpha []byte, n int) []string {
	out := []string{""}
	prev := []string{""}
	for i := 0; i < n; i++ {
		var next []string
		for _, p := range prev {
			for _, c := range alpha {
				next = append(next, p+string(c))
			}
		}
		out = append(out, next...)
		prev = next
	}
	return out
}

func c15Header(stack string, t *c15Tree, r *corr.Rand) []string {
	l := append([]string{"case iofs " + stack}, c15Setup(stack, t, r)...)
	return append(l, "ready", "snapshot")
}

var c15Patterns = []string{"*", "*/*", "a/*", "*.txt", "a/*.txt", "?", "??", "[a-c]*", "a/b/*/z*", "a/[ab]", "*/*/*", "a/b/c/*.dat", "e/*/*/*",
	"nonexist/*", "a", "a/b", "a/b/y.txt", "top.txt", ".", "zz", "a/*/c", "*a*", "[^a]*", "a/x.tx[s-u]",
	"[", "a/[", "[]", "[a-", "a/b/[]", "nonexist/[]", "*/[", "[a-]", "[-a]", `\`, `a\`, "[]a]", "a[", `[\`,
	`a\a`, `[\a]a`, "a/", "/a", "./a", "a//a", "../a", "a/./a", "",
	// escapes in elements that are matched against a listing; literal elements below a wildcard
	`*/x\.txt`, `*/\x.txt`, `a/?/\y.txt`, `*/*/\y\.txt`, `*/\b`, `[a]/\x.txt`, `*/b/y.txt`, `*/b`, `?/b/c`, `*/nope`, `*/x\*`, `a/*/\c/z.txt`, "*/.", "a/*/.."}

func c15Exhaustive(tier string) []corr.Case {
	h := corr.HexS
	t := c15FixedTree()
	var cases []corr.Case
	names := c15Gen([]byte("/.a"), 5)
	extra := []string{"a/b", "a/b/", "a/b/.", "a/b/..", "a/../a", "a/b/c/z.txt", "a/b//c", "a/./b", `a\b`, "a/b/c/z.txt/", "./a/b", "a/x.txt", "a/h.dat",
		"e/deep/er/w.txt", "nope", "a/nope", "a/x.txt/x", "top.txt", "b", "\xff", "a/\xc3\x28"}
	names = append(names, extra...)
	for _, stack := range c15Stacks {
		// (1) the ValidPath table: every entry point × every short string over {/ . a}
		const chunk = 52
		for lo := 0; lo < len(names); lo += chunk {
			hi := min(lo+chunk, len(names))
			l := c15Header(stack, t, nil)
			for _, n := range names[lo:hi] {
				l = append(l, "io.open "+h(n), "io.stat "+h(n), "io.readdir "+h(n), "io.readfile "+h(n), "io.glob "+h(n),
					"io.sub "+h(n)+" stat "+h("."), "io.sub "+h("a")+" stat "+h(n), "io.sub "+h(n)+" readdir "+h("a"))
				if c15IsFrom(stack) {
					l = append(l, "open "+h(n), "stat "+h(n), "openfile "+h(n)+" 2 420")
				}
			}
			l = append(l, "snapshot")
			cases = append(cases, corr.Case{Lines: l})
		}
		// (2) listings: every directory × every page size, and mixed page sizes
		dirs := append([]string{"."}, t.dirs...)
		for _, n := range []int{-1, 0, 1, 2, 3, 100} {
			l := c15Header(stack, t, nil)
			k := 0
			for _, d := range dirs {
				l = append(l, "io.readdir "+h(d), "io.open "+h(d))
				for j := 0; j < 7; j++ {
					l = append(l, fmt.Sprintf("f.readdir %d %d", k, n))
				}
				l = append(l, fmt.Sprintf("f.readdir %d -1", k), fmt.Sprintf("f.readdir %d 1", k), fmt.Sprintf("f.readdir %d 0", k), fmt.Sprintf("f.close %d", k))
				k++
			}
			cases = append(cases, corr.Case{Lines: l})
		}
		{
			l := c15Header(stack, t, nil)
			k := 0
			for _, seq := range [][]int{{1, 2, 3, 1}, {2, -1, 1}, {3, 0, 1}, {1, 1, 1, 1, 1, 1}, {100, 100}, {2, 2, 2, 2}, {1, 9223372036854775807, 1}, {9223372036854775807, 1}, {2, 9223372036854775806}} {
				for _, d := range []string{"a", "a/b/c", "."} {
					l = append(l, "io.open "+h(d))
					for _, n := range seq {
						l = append(l, fmt.Sprintf("f.readdir %d %d", k, n))
					}
					k++
				}
			}
			cases = append(cases, corr.Case{Lines: l})
		}
		if c15IsFrom(stack) {
			// the same through FromIOFS' File adapter (Readdir / Readdirnames)
			for _, n := range []int{-1, 0, 1, 2, 3, 100} {
				l := c15Header(stack, t, nil)
				k := 0
				for _, d := range dirs {
					for _, m := range []string{"h.readdir", "h.readdirnames"} {
						l = append(l, "open "+h(d))
						for j := 0; j < 6; j++ {
							l = append(l, fmt.Sprintf("%s %d %d", m, k, n))
						}
						l = append(l, fmt.Sprintf("%s %d -1", m, k), fmt.Sprintf("%s %d 1", m, k), fmt.Sprintf("h.name %d", k), fmt.Sprintf("h.stat %d", k), fmt.Sprintf("h.close %d", k))
						k++
					}
				}
				cases = append(cases, corr.Case{Lines: l})
			}
		}
		// (3) Read / Seek / ReadAt on files of every small size, every offset and length
		for _, f := range []string{"a/b/y.txt", "top.txt", "a/x.txt", "a/b/c/z.txt"} {
			size := len(t.files[f])
			l := c15Header(stack, t, nil)
			l = append(l, "io.readfile "+h(f), "io.open "+h(f), "f.stat 0")
			for off := -1; off <= size+2; off++ {
				for ln := 0; ln <= size+2; ln += 1 + size/4 {
					l = append(l, fmt.Sprintf("f.readat 0 %d %d", ln, off))
				}
				for _, wh := range []int{0, 1, 2} {
					l = append(l, fmt.Sprintf("f.seek 0 %d %d", off-wh, wh), "f.read 0 2")
				}
			}
			l = append(l, "f.seek 0 0 0", fmt.Sprintf("f.read 0 %d", size+3), "f.read 0 1", "f.read 0 0", "f.close 0", "snapshot")
			cases = append(cases, corr.Case{Lines: l})
			if c15IsFrom(stack) {
				l := c15Header(stack, t, nil)
				l = append(l, "open "+h(f), "h.stat 0", "h.name 0")
				for off := -1; off <= size+2; off++ {
					l = append(l, fmt.Sprintf("h.readat 0 3 %d", off), fmt.Sprintf("h.seek 0 %d 0", off), "h.read 0 2", fmt.Sprintf("h.seek 0 %d 2", -off), "h.read 0 4")
				}
				l = append(l, "h.write 0 5858", "h.writeat 0 5858 0", "h.trunc 0 0", "h.sync 0", "h.seek 0 0 0", fmt.Sprintf("h.read 0 %d", size+3), "h.close 0", "snapshot")
				cases = append(cases, corr.Case{Lines: l})
			}
		}
		// (4) Sub: every kind of directory argument × every method × names
		for _, d := range []string{".", "a", "a/b", "a/b/c", "e/deep", "a/empty", "aa", "nope", "a/", "/a", "", "..", "a/../a", "./a", "a//b"} {
			l := c15Header(stack, t, nil)
			for _, n := range []string{".", "b", "b/c", "b/c/z.txt", "x.txt", "c/z.txt", "er/w.txt", "z.txt", "nope", "../a", "/", "b/", "", "a", "a/a"} {
				for _, op := range []string{"stat", "readdir", "readfile", "open"} {
					l = append(l, "io.sub "+h(d)+" "+op+" "+h(n))
				}
			}
			for _, p := range []string{"*", "*/*", "b/*", "[", "*.txt", "c/*"} {
				l = append(l, "io.sub "+h(d)+" glob "+h(p))
			}
			l = append(l, "snapshot")
			cases = append(cases, corr.Case{Lines: l})
		}
		// (5) Glob: the pattern table
		{
			l := c15Header(stack, t, nil)
			for _, p := range c15Patterns {
				l = append(l, "io.glob "+h(p))
			}
			cases = append(cases, corr.Case{Lines: l})
		}
		// (6) FromIOFS: every mutator on every kind of name, then the tree must be what it was
		if c15IsFrom(stack) {
			for _, n := range []string{"a/x.txt", "a", "a/empty", "nope", "a/nope.txt", ".", "/a", "a/", "", "a/b/c/z.txt"} {
				l := c15Header(stack, t, nil)
				l = append(l, "create "+h(n), "mkdir "+h(n)+" 493", "mkdirall "+h(n)+" 493", "remove "+h(n), "removeall "+h(n),
					"rename "+h(n)+" "+h("moved.txt"), "rename "+h("top.txt")+" "+h(n), "chmod "+h(n)+" 384", "chown "+h(n)+" 1 1", "chtimes "+h(n)+" 5", "snapshot")
				for _, flag := range []int{0, 1, 2, 0x42, 0x242, 0x441, 0x200, 0xc1} {
					l = append(l, fmt.Sprintf("openfile %s %d 420", h(n), flag))
				}
				l = append(l, "stat "+h(n), "open "+h(n), "snapshot")
				cases = append(cases, corr.Case{Lines: l})
			}
		}
		// (7) the guard of Glob: every short string over the pattern syntax characters; and
		// (8) UTF-8 validity as part of ValidPath: every short string over the boundary bytes
		if stack == "mem" || stack == "from-mem" || stack == "cow" {
			n := 4
			if tier == "thorough" {
				n = 5
			}
			pats := c15Gen([]byte(`[]\-^*a/`), n)
			for lo := 0; lo < len(pats); lo += 600 {
				l := c15Header(stack, t, nil)
				for _, p := range pats[lo:min(lo+600, len(pats))] {
					l = append(l, "io.glob "+h(p))
				}
				cases = append(cases, corr.Case{Lines: l})
			}
			bs := c15Gen([]byte{0x61, 0x7f, 0x80, 0xbf, 0xc1, 0xc2, 0xdf, 0xe0, 0xa0, 0x9f, 0xed, 0xef, 0xf0, 0x90, 0x8f, 0xf4, 0xf5}, n-1)
			for lo := 1; lo < len(bs); lo += 600 {
				l := c15Header(stack, t, nil)
				for _, p := range bs[lo:min(lo+600, len(bs))] {
					l = append(l, "io.stat "+h(p))
					if len(p) == n-1 {
						l = append(l, "io.open "+h("a/"+p+"/x"))
					}
				}
				cases = append(cases, corr.Case{Lines: l})
			}
		}
		// (9) the standard library's own conformance test on the fixed tree
		cases = append(cases, corr.Case{Lines: append(c15Header(stack, t, nil), "fstest", "snapshot")})
	}
	return cases
}

func c15RandomOps(rr *corr.Rand, stack string, t *c15Tree, n int) []string {
	h := corr.HexS
	var names []string
	names = append(names, ".")
	names = append(names, t.dirs...)
	names = append(names, t.order...)
	bad := []string{"", "/", "a/", "/a", "./a", "a//b", "..", "a/..", "a/../b", "nope", "a/nope", "x/y/z", `a\b`}
	pick := func() string {
		if rr.Chance(15) {
			return corr.Pick(rr, bad)
		}
		p := corr.Pick(rr, names)
		if rr.Chance(8) {
			return corr.Pick(rr, []string{p + "/", "/" + p, p + "/.", "./" + p, p + "/..", p + "//"})
		}
		return p
	}
	var l []string
	var fopen, aopen []int
	nf, na := 0, 0
	for k := 0; k < n; k++ {
		p := pick()
		switch q := rr.Intn(100); {
		case q < 10:
			l = append(l, "io.stat "+h(p))
		case q < 20:
			l = append(l, "io.readdir "+h(p))
		case q < 30:
			l = append(l, "io.readfile "+h(p))
		case q < 45:
			l = append(l, "io.open "+h(p))
			fopen = append(fopen, nf) // handles are numbered by open lines; a failed open answers err:inval later
			nf++
		case q < 50:
			pat := corr.Pick(rr, []string{"*", "*/*", "*/*/*", "*.txt", "a*", "?", "[a-c]*", "*/[x-z]*", p, p + "/*", "*" + pathBaseSafe(p), "["})
			l = append(l, "io.glob "+h(pat))
		case q < 58:
			d := corr.Pick(rr, append([]string{".", "nope", "a/", ""}, t.dirs...))
			op := corr.Pick(rr, []string{"stat", "readdir", "readfile", "glob"})
			nm := corr.Pick(rr, []string{".", "a", "b", "x", "d.txt", "y.txt", "sub", "*", "*/*", "/", "a/"})
			l = append(l, "io.sub "+h(d)+" "+op+" "+h(nm))
		case q < 85:
			if len(fopen) == 0 {
				continue
			}
			k := corr.Pick(rr, fopen)
			l = append(l, corr.Pick(rr, []string{
				fmt.Sprintf("f.read %d %d", k, corr.Pick(rr, []int{0, 1, 2, 7, 64, 5000})),
				fmt.Sprintf("f.readat %d %d %d", k, corr.Pick(rr, []int{0, 1, 3, 64, 5000}), corr.Pick(rr, []int{-1, 0, 1, 2, 5, 16, 99, 100, 101, 699, 700, 3000})),
				fmt.Sprintf("f.seek %d %d %d", k, corr.Pick(rr, []int{-5, -1, 0, 1, 2, 17, 100, 4000}), rr.Intn(3)),
				fmt.Sprintf("f.readdir %d %d", k, corr.Pick(rr, []int{-1, 0, 1, 1, 2, 2, 3, 100})),
				fmt.Sprintf("f.readdir %d %d", k, corr.Pick(rr, []int{-1, 0, 1, 1, 2, 2, 3, 100})),
				fmt.Sprintf("f.stat %d", k),
				fmt.Sprintf("f.close %d", k),
			}))
		default:
			if !c15IsFrom(stack) {
				continue
			}
			switch q2 := rr.Intn(100); {
			case q2 < 25:
				l = append(l, corr.Pick(rr, []string{"create " + h(p), "mkdir " + h(p) + " 493", "mkdirall " + h(p) + " 493", "remove " + h(p), "removeall " + h(p),
					"rename " + h(p) + " " + h(pick()), "chmod " + h(p) + " 384", "chown " + h(p) + " 1 1", "chtimes " + h(p) + " 5"}), "snapshot")
			case q2 < 35:
				l = append(l, "stat "+h(p))
			case q2 < 55:
				l = append(l, corr.Pick(rr, []string{"open " + h(p), fmt.Sprintf("openfile %s %d 420", h(p), corr.Pick(rr, []int{0, 1, 2, 0x42, 0x242, 0x441}))}))
				aopen = append(aopen, na)
				na++
			default:
				if len(aopen) == 0 {
					continue
				}
				k := corr.Pick(rr, aopen)
				l = append(l, corr.Pick(rr, []string{
					fmt.Sprintf("h.read %d %d", k, corr.Pick(rr, []int{0, 1, 2, 7, 64, 5000})),
					fmt.Sprintf("h.readat %d %d %d", k, corr.Pick(rr, []int{0, 1, 3, 64}), corr.Pick(rr, []int{-1, 0, 1, 2, 5, 16, 100, 700})),
					fmt.Sprintf("h.seek %d %d %d", k, corr.Pick(rr, []int{-5, -1, 0, 1, 2, 17, 100}), rr.Intn(3)),
					fmt.Sprintf("h.readdir %d %d", k, corr.Pick(rr, []int{-1, 0, 1, 2, 3})),
					fmt.Sprintf("h.readdirnames %d %d", k, corr.Pick(rr, []int{-1, 0, 1, 2, 3})),
					fmt.Sprintf("h.write %d 5859", k), fmt.Sprintf("h.writeat %d 58 1", k), fmt.Sprintf("h.trunc %d 0", k),
					fmt.Sprintf("h.name %d", k), fmt.Sprintf("h.stat %d", k), fmt.Sprintf("h.sync %d", k), fmt.Sprintf("h.close %d", k),
				}))
			}
		}
	}
	return l
}

func pathBaseSafe(p string) string {
	b := path.Base(p)
	if strings.ContainsAny(b, `*?[\`) || b == "." || b == "/" {
		return "x"
	}
	return b
}

func c15Random(r *corr.Rand, tier string) []corr.Case {
	trees, perStack := 120, 1
	if tier == "thorough" {
		trees = 4000
	}
	var cases []corr.Case
	for i := 0; i < trees; i++ {
		rt := r.Fork()
		t := c15RandTree(rt, 4, 5)
		for _, stack := range c15Stacks {
			for k := 0; k < perStack; k++ {
				rr := rt.Fork()
				l := c15Header(stack, t, rr)
				l = append(l, "fstest")
				l = append(l, c15RandomOps(rr, stack, t, 25+rr.Intn(30))...)
				l = append(l, "snapshot")
				cases = append(cases, corr.Case{Lines: l})
			}
		}
	}
	return cases
}

func c15Corpus() []corr.Case {
	h := corr.HexS
	t := c15FixedTree()
	var cases []corr.Case
	// S2: a short ReadAt must report EOF (fstest on any non-empty file)
	cases = append(cases, corr.Case{Lines: append(c15Header("mem", t, nil), "io.open "+h("a/x.txt"), "f.readat 0 6 0", "f.readat 0 5 0", "fstest")})
	// S24: a union directory handle must be drained by ReadDir(-1)
	cases = append(cases, corr.Case{Lines: []string{"case iofs cow", "src.mkdirall " + h("d") + " 493", "l.mkdirall " + h("d") + " 493", "src.put " + h("d/one.txt") + " 31",
		"l.put " + h("d/two.txt") + " 3232", "ready", "snapshot", "io.open " + h("d"), "f.readdir 0 -1", "f.readdir 0 -1", "f.readdir 0 1", "fstest"}})
	// RegexpFs.OpenFile / Open: listings through the filter, page by page, hidden files first in the directory
	cases = append(cases, corr.Case{Lines: []string{"case iofs re", "src.put " + h("d/a.dat") + " 31", "src.put " + h("d/b.dat") + " 31", "src.put " + h("d/c.txt") + " 31", "src.put " + h("d/e.dat") + " 31",
		"ready", "snapshot", "io.open " + h("d"), "f.readdir 0 1", "f.readdir 0 1", "f.readdir 0 1", "f.readdir 0 1", "io.open " + h("d"), "f.readdir 1 2", "f.readdir 1 2", "f.readdir 1 2", "fstest"}})
	// Open and ReadFile refuse an invalid name; Sub(".") is the file system itself (used to be a
	// BasePathFs rooted at ".", which serves nothing but "."); ReadDir/Stat/Sub of invalid names: no panic
	cases = append(cases, corr.Case{Lines: append(c15Header("mem", t, nil), "io.readdir "+h("a/"), "io.readdir "+h("/"), "io.readdir "+h("a/../a"), "io.stat "+h("a/"), "io.stat "+h(""),
		"io.sub "+h("a/")+" stat "+h("."), "io.sub "+h("..")+" readdir "+h("."), "io.sub "+h(".")+" stat "+h("a"), "io.sub "+h(".")+" readdir "+h("a/b"))})
	return cases
}

func C15() *corr.Engine {
	return &corr.Engine{
		ID: "C15", DriverEngine: "iofs",
		Corpus: c15Corpus, Exhaustive: c15Exhaustive, Random: c15Random,
		RunImpl: c15RunImpl, Oracle: c15Oracle,
		NonTrivial: func(c corr.Case, impl []string) bool {
			_, view := c15View(c)
			deep := false
			for p, n := range view {
				if !n.dir && len(n.data) > 0 && strings.Contains(p, "/") {
					deep = true
				}
			}
			obs := 0
			for _, l := range c.Lines {
				if strings.HasPrefix(l, "io.") || strings.HasPrefix(l, "f.") || strings.HasPrefix(l, "fstest") || strings.HasPrefix(l, "h.") {
					obs++
				}
			}
			return deep && obs >= 3
		},
		Classify: func(c corr.Case, impl []string, hist map[string]int) {
			stack := strings.Fields(c.Lines[0])[2]
			hist["stack:"+stack]++
			for i, l := range c.Lines {
				t := strings.Fields(l)
				op := t[0]
				if op == "io.sub" {
					op += "." + t[2]
				}
				hist["op:"+op]++
				res := cowStrip(impl[i])
				if strings.HasPrefix(res, "err:") {
					hist[res]++
				}
				if strings.HasPrefix(op, "io.") && len(t) > 1 && !c15Valid(string(corr.UnHex(t[1]))) {
					hist["invalid-name"]++
				}
			}
		},
		Rule: "the tree holds a non-empty file below the root and the script makes at least three io/fs-level observations (entry points, file handles, listings or the fstest run); distinct by script hash",
		Signature: func(c corr.Case, impl []string, what string, line int) string {
			if line < 0 || line >= len(c.Lines) {
				line = 0
			}
			t := strings.Fields(c.Lines[line])
			op := t[0]
			if op == "io.sub" && len(t) > 2 {
				op += "." + t[2]
			}
			stack := strings.TrimPrefix(strings.Fields(c.Lines[0])[2], "from-")
			kind := "other"
			if t[0] == "io.sub" && len(t) > 1 && t[1] == corr.HexS(".") {
				return "C15:*:io.sub:dot" // Sub(".") must be the file system itself
			}
			switch {
			case strings.Contains(what, "panics"):
				kind = "panic"
			case strings.Contains(what, "invalid io/fs path"):
				kind = "invalid-accepted"
				stack = "*"
			case strings.Contains(what, "generic io/fs version"):
				kind = "generic-differs"
				if len(t) > 1 && !c15Valid(string(corr.UnHex(t[1]))) {
					kind = "invalid-accepted"
				}
				stack = "*"
			case strings.Contains(what, "fstest"):
				kind = "fstest"
			case strings.Contains(what, "ReadDir("):
				kind = "paging"
			case strings.Contains(what, "permission"):
				kind = "mutator"
				stack = "from"
			case strings.Contains(what, "backing tree changed"):
				kind = "mutated"
			case strings.Contains(what, "Read") || strings.Contains(what, "Seek"):
				kind = "read"
			}
			return "C15:" + stack + ":" + op + ":" + kind
		},
		CompareLine: func(impl, model string) bool {
			impl = cowStrip(impl)
			if model == "unmodelled" || impl == model {
				return true
			}
			// a refused write reports count -1 in Go; the model carries only the error
			return strings.HasPrefix(impl, "n=-1 err:") && model == "err:"+strings.TrimPrefix(impl, "n=-1 err:")
		},
	}
}
