package engines

import (
	"fmt"
	"os"
	"path/filepath"
	"regexp"
	"sort"
	"strings"
	"time"

	"github.com/spf13/afero"

	"verifharness/corr"
)

// ---------------------------------------------------------------------------------------
// C13 — RegexpFs hides and protects every non-matching file.
// Script (engine `refs`): case re <pattern-id>; `src.<op>` acts on the source.
// Oracle (independent of the model): a non-matching regular file of the source is never
// reported by Stat/Open/listing through the filter, no call naming it succeeds, and the set
// of non-matching files with their bytes/mode/mtime is unchanged by any filtered call except
// RemoveAll of an enclosing directory; matching files and directories read the same as direct.
// ---------------------------------------------------------------------------------------

var c13Patterns = map[string]*regexp.Regexp{
	"txt": regexp.MustCompile(`\.txt$`),
	"a":   regexp.MustCompile(`(^|/)a[^/]*$`),
	"x":   regexp.MustCompile(`x[^/]*$`),
	"ac":  regexp.MustCompile(`(^|/)[a-c]+$`),
	// "no dot in the final element": a base-name pattern that accepts the EMPTY final element of a name
	// spelled with a trailing separator
	"nodot": regexp.MustCompile(`(^|/)[^./]*$`),
}

// hiddenSnapshot: every regular file of the source whose (cleaned) name does not match
func hiddenSnapshot(src afero.Fs, re *regexp.Regexp) map[string]string {
	out := map[string]string{}
	for _, n := range SnapshotMem(src) {
		if !n.Dir && !re.MatchString(n.Path) {
			out[n.Path] = fmt.Sprintf("%x|%o|%d", n.Data, n.Mode, n.MTime)
		}
	}
	return out
}

// c13IOFSList: the filtered filesystem seen through the io/fs adapter (afero.NewIOFS), over sources whose directory
// handles are of different kinds (mem.File, UnionFile of a copy-on-write or caching filesystem, BasePathFile, …):
// fs.ReadDir, ReadDir(n) on an opened directory (all at once and one by one) and fs.WalkDir show exactly the
// directories and the matching files.
func c13IOFSList(kind, pid string) string {
	re := c13Patterns[pid]
	// io/fs names are unrooted: the tree is built under such names (MemMapFs keeps "d/x" and "/d/x" apart)
	files := []string{"d/a.txt", "d/b.dat", "d/secret.bin", "d/sub/abc", "d/sub/note.txt", "d/sub/x9", "top.txt", "zeta"}
	build := func(fsys afero.Fs, prefix string) {
		for _, f := range files {
			fsys.MkdirAll(filepath.Dir(prefix+f), 0o755)
			afero.WriteFile(fsys, prefix+f, []byte("content of "+f), 0o644)
		}
		fsys.MkdirAll(prefix+"d/emptydir", 0o755)
	}
	base := afero.NewMemMapFs()
	build(base, "")
	var src afero.Fs = base
	var inner *regexp.Regexp
	switch kind {
	case "mem":
	case "cow-base":
		src = afero.NewCopyOnWriteFs(base, afero.NewMemMapFs())
	case "cow-both": // something was written below every directory: they are opened as unions of both layers
		cow := afero.NewCopyOnWriteFs(base, afero.NewMemMapFs())
		for _, f := range []string{"d/c.txt", "d/late.bin", "d/sub/w.txt", "d/sub/hidden", "new.txt"} {
			if err := afero.WriteFile(cow, f, []byte("written"), 0o644); err != nil {
				return "fail: set-up: " + err.Error()
			}
			files = append(files, f)
		}
		src = cow
	case "cache":
		src = afero.NewCacheOnReadFs(base, afero.NewMemMapFs(), time.Hour)
	case "bp":
		b2 := afero.NewMemMapFs()
		build(b2, "/jail/")
		src = afero.NewBasePathFs(b2, "/jail")
	case "ro":
		src = afero.NewReadOnlyFs(base)
	case "re-x", "re-txt", "re-a": // a filter stacked on a filter: a name must pass both
		inner = c13Patterns[strings.TrimPrefix(kind, "re-")]
		src = afero.NewRegexpFs(base, inner)
	default:
		return "bad-op"
	}
	iofs := afero.NewIOFS(afero.NewRegexpFs(src, re))
	visible := func(dir string) []string { // dir: "" for the root, else "d", "d/sub", …
		seen := map[string]bool{}
		pre := dir
		if pre != "" {
			pre += "/"
		}
		for _, f := range files {
			if !strings.HasPrefix(f, pre) {
				continue
			}
			rest := strings.TrimPrefix(f, pre)
			if i := strings.Index(rest, "/"); i >= 0 {
				seen[rest[:i]] = true // a directory: never hidden
			} else if re.MatchString(f) && (inner == nil || inner.MatchString(f)) {
				seen[rest] = true
			}
		}
		if dir == "d" {
			seen["emptydir"] = true
		}
		var out []string
		for n := range seen {
			out = append(out, n)
		}
		sort.Strings(out)
		return out
	}
	names := func(es []iofsDirEntry) []string {
		var out []string
		for _, e := range es {
			out = append(out, e.Name())
		}
		sort.Strings(out)
		return out
	}
	for _, dir := range []string{"", "d", "d/sub", "d/emptydir"} {
		want := strings.Join(visible(dir), ",")
		name := dir
		if name == "" {
			name = "."
		}
		es, err := iofsReadDir(iofs, name)
		if err != nil || strings.Join(names(es), ",") != want {
			return fmt.Sprintf("fail: fs.ReadDir(%s) over %s lists [%s] (%v); the directories and matching files are [%s]", name, kind, strings.Join(names(es), ","), err, want)
		}
		f, err := iofs.Open(name)
		if err != nil {
			return fmt.Sprintf("fail: Open(%s): %v", name, err)
		}
		if rdf, ok := f.(iofsReadDirFile); ok {
			var all []iofsDirEntry
			// (a page of a filtered directory may come back short or empty without an error: paged until the end is reported)
			for k := 0; k < 1000; k++ {
				page, err := rdf.ReadDir(1)
				all = append(all, page...)
				if err != nil {
					break
				}
			}
			if strings.Join(names(all), ",") != want {
				f.Close()
				return fmt.Sprintf("fail: ReadDir(1) pages of %s over %s give [%s], want [%s]", name, kind, strings.Join(names(all), ","), want)
			}
		}
		f.Close()
	}
	var walked []string
	iofsWalkDir(iofs, ".", func(p string, isDir bool) {
		if !isDir {
			walked = append(walked, p)
		}
	})
	sort.Strings(walked)
	var wantFiles []string
	for _, f := range files {
		if re.MatchString(f) && (inner == nil || inner.MatchString(f)) {
			wantFiles = append(wantFiles, f)
		}
	}
	sort.Strings(wantFiles)
	if strings.Join(walked, ",") != strings.Join(wantFiles, ",") {
		return fmt.Sprintf("fail: fs.WalkDir over %s visits the files %v, the matching files are %v", kind, walked, wantFiles)
	}
	return "ok"
}

// c13HandleStatOS: a handle obtained through the filter reports the metadata the source's own handle reports — also
// later, after the file has grown and its mode has changed (on the operating system's file system a FileInfo is a
// snapshot, so an answer remembered from the time of Open shows).
func c13HandleStatOS(pid string) string {
	re := c13Patterns[pid]
	dir, err := os.MkdirTemp("", "verif-c13os-")
	if err != nil {
		return "fail: " + err.Error()
	}
	defer os.RemoveAll(dir)
	name := ""
	for _, n := range []string{"a.txt", "ax", "abc", "ax.txt"} {
		if re.MatchString(filepath.Join(dir, n)) {
			name = filepath.Join(dir, n)
			break
		}
	}
	if name == "" {
		return "skipped: no candidate name matches"
	}
	os.WriteFile(name, []byte("12345"), 0o644)
	osfs := afero.NewOsFs()
	fs := afero.NewRegexpFs(osfs, re)
	for _, how := range []string{"open", "openfile"} {
		os.WriteFile(name, []byte("12345"), 0o644)
		os.Chmod(name, 0o644)
		var f, ref afero.File
		if how == "open" {
			f, err = fs.Open(name)
			ref, _ = osfs.Open(name)
		} else {
			f, err = fs.OpenFile(name, os.O_RDONLY, 0)
			ref, _ = osfs.OpenFile(name, os.O_RDONLY, 0)
		}
		if err != nil {
			return fmt.Sprintf("fail: %s of a matching file through the filter: %v", how, err)
		}
		describe := func(x afero.File) string {
			fi, err := x.Stat()
			if err != nil {
				return "err:" + ErrClass(err)
			}
			return fmt.Sprintf("%s size=%d mode=%v", fi.Name(), fi.Size(), fi.Mode())
		}
		a0, b0 := describe(f), describe(ref)
		os.WriteFile(name, []byte("1234567890"), 0o644)
		os.Chmod(name, 0o600)
		a1, b1 := describe(f), describe(ref)
		f.Close()
		ref.Close()
		if a0 != b0 || a1 != b1 {
			return fmt.Sprintf("fail: handle from %s through the filter reports [%s], then [%s]; the source's own handle reports [%s], then [%s]", how, a0, a1, b0, b1)
		}
	}
	return "ok"
}

func c13RunImpl(c corr.Case) []string {
	var src afero.Fs
	var re *regexp.Regexp
	var r *Runner
	srcH := map[int]bool{}
	old := time.Unix(1_600_000_000, 123_456_789)
	out := make([]string, 0, len(c.Lines))
	for _, line := range c.Lines {
		t := strings.Fields(line)
		out = append(out, guard(func() string {
			switch {
			case t[0] == "iofs-list":
				return c13IOFSList(t[1], t[2])
			case t[0] == "hstat-os":
				return c13HandleStatOS(t[1])
			case t[0] == "case":
				src = afero.NewMemMapFs()
				re = c13Patterns[t[2]]
				r = NewRunner(afero.NewRegexpFs(src, re))
				r.Src = src
				srcH = map[int]bool{}
				return "case"
			case t[0] == "snapshot":
				return SnapLine(SnapshotMem(src))
			case t[0] == "src.age":
				afero.Walk(src, "/", func(p string, fi os.FileInfo, err error) error {
					if err == nil {
						src.Chtimes(p, old, old)
					}
					return nil
				})
				return "ok"
			case strings.HasPrefix(t[0], "src."):
				res := r.Exec(t)
				if strings.HasPrefix(res, "h=") {
					srcH[len(r.H)-1] = true
				}
				return res
			case strings.HasPrefix(t[0], "h.") && srcH[atoi(t[1])]:
				return r.Exec(t) + " #SRC"
			}
			before := hiddenSnapshot(src, re)
			res := r.Exec(t)
			after := hiddenSnapshot(src, re)
			note := ""
			for p, v := range before {
				if w, ok := after[p]; !ok {
					// gone: only legitimate through RemoveAll of an enclosing *directory*
					legit := false
					if t[0] == "removeall" {
						target := filepath.Clean("/" + string(corr.UnHex(t[1])))
						legit = strings.HasPrefix(p, strings.TrimSuffix(target, "/")+"/")
					}
					if t[0] == "rename" || !legit {
						note += " #HIDDEN-REMOVED(" + p + ")"
					}
				} else if w != v {
					note += " #HIDDEN-MODIFIED(" + p + ")"
				}
			}
			for p := range after {
				if _, ok := before[p]; !ok {
					note += " #HIDDEN-CREATED(" + p + ")"
				}
			}
			// a listing never shows a non-matching regular file
			if t[0] == "h.readdir" || t[0] == "h.readdirnames" {
				hi := atoi(t[1])
				if hi < len(r.H) {
					dir := r.H[hi].Name()
					for _, e := range pageNames(res) {
						name := string(corr.UnHex(strings.Split(e, "/")[0]))
						full := filepath.Join(dir, name)
						if _, hidden := after[full]; hidden {
							note += " #HIDDEN-LISTED(" + full + ")"
						}
					}
				}
			}
			// every existing matching file and every directory is visible: a complete paged listing of a
			// directory, for any page size, shows exactly the source's directories and matching files
			if t[0] == "open" && strings.HasPrefix(res, "h=") {
				dir := filepath.Clean("/" + string(corr.UnHex(t[1])))
				if fi, err := src.Stat(dir); err == nil && fi.IsDir() {
					var want []string
					if sfis, err := afero.ReadDir(src, dir); err == nil {
						for _, sfi := range sfis {
							if sfi.IsDir() || re.MatchString(sfi.Name()) {
								want = append(want, sfi.Name())
							}
						}
					}
					sort.Strings(want)
					for _, n := range []int{-1, 1, 2, 3} {
						f, err := r.Fs.Open(dir)
						if err != nil {
							continue
						}
						var got []string
						for k := 0; k < 400; k++ {
							fis, err := f.Readdir(n)
							for _, x := range fis {
								got = append(got, x.Name())
							}
							if err != nil || n <= 0 {
								break
							}
						}
						f.Close()
						sort.Strings(got)
						if strings.Join(got, "\x00") != strings.Join(want, "\x00") {
							note += fmt.Sprintf(" #NOT-TRANSPARENT(listing of %s in pages of %d shows %q, the visible entries are %q)", dir, n, got, want)
							break
						}
					}
				}
			}
			// a call naming a hidden file must fail; a call naming a visible entry reads like the source
			if len(t) > 1 && !strings.HasPrefix(t[0], "h.") && t[0] != "mkdir" && t[0] != "mkdirall" {
				target := filepath.Clean("/" + string(corr.UnHex(t[1])))
				raw := string(corr.UnHex(t[1]))
				_, hidden := before[target]
				if hidden && !re.MatchString(raw) && !strings.HasPrefix(res, "err:") && t[0] != "removeall" {
					note += " #HIDDEN-ACCESSED"
				}
				if t[0] == "rename" {
					t2 := filepath.Clean("/" + string(corr.UnHex(t[2])))
					if _, h2 := before[t2]; h2 && !re.MatchString(string(corr.UnHex(t[2]))) && res == "ok" {
						if fi, err := src.Stat(target); err != nil || !fi.IsDir() { // a directory rename is a silent no-op
							note += " #HIDDEN-ACCESSED"
						}
					}
				}
				if t[0] == "stat" && !hidden {
					fi, err := src.Stat(raw)
					want := "err:" + ErrClass(err)
					if err == nil {
						want = infoLine(fi)
					}
					if err == nil && (fi.IsDir() || re.MatchString(raw)) && want != res {
						note += " #NOT-TRANSPARENT(direct " + want + ")"
					}
				}
			}
			return res + note
		}))
	}
	return out
}

func c13Oracle(c corr.Case, impl []string) (string, int) {
	for i, line := range c.Lines {
		if (strings.HasPrefix(line, "iofs-list") || strings.HasPrefix(line, "hstat-os")) && strings.HasPrefix(impl[i], "fail") {
			return impl[i], i
		}
	}
	for i, line := range c.Lines {
		t := strings.Fields(line)
		if impl[i] == "panic" {
			return "call panics: " + t[0], i
		}
		for _, tag := range []string{"#HIDDEN-", "#NOT-TRANSPARENT"} {
			if k := strings.Index(impl[i], tag); k >= 0 {
				return t[0] + " through the filter: " + impl[i][k:], i
			}
		}
	}
	return "", -1
}

var c13Dirs = []string{"/d", "/d/sub", "/ab"}
var c13Files = []string{"/d/a.txt", "/d/b.dat", "/d/x.txt", "/d/sub/abc", "/d/sub/note.txt", "/d/sub/zz", "/ab/cab", "/ab/k.txt", "/top.txt", "/a", "/zed"}

func c13Setup(r *corr.Rand) ([]string, int) {
	h := corr.HexS
	var l []string
	for _, d := range c13Dirs {
		l = append(l, "src.mkdirall "+h(d)+" 493")
	}
	nh := 0
	for _, f := range c13Files {
		if r == nil || r.Chance(80) {
			l = append(l, "src.create "+h(f), fmt.Sprintf("h.write %d %s", nh, corr.HexS("content of "+f)), fmt.Sprintf("h.close %d", nh))
			nh++
		}
	}
	return append(l, "src.age"), nh
}

func c13Ops(p string, nh int) []string {
	h := corr.HexS
	return []string{"stat " + h(p), "open " + h(p), fmt.Sprintf("h.read %d 64", nh), fmt.Sprintf("h.readdirnames %d -1", nh), fmt.Sprintf("h.write %d 58", nh),
		"openfile " + h(p) + " 2 420", "openfile " + h(p) + " 66 420", "openfile " + h(p) + " 0 420",
		"chmod " + h(p) + " 384", "chown " + h(p) + " 1 1", "chtimes " + h(p) + " 5", "create " + h(p)}
}

func c13Exhaustive(tier string) []corr.Case {
	h := corr.HexS
	var cases []corr.Case
	for pid := range c13Patterns {
		setup, nh := c13Setup(nil)
		targets := append(append([]string{}, c13Files...), c13Dirs...)
		targets = append(targets, "/d/new.txt", "/d/newfile", "/absent/x.txt", "/d/b.dat/", "/d/./b.dat", "/d/sub/../b.dat", "/d/b.dat/.")
		for _, p := range targets {
			l := append([]string{"case re " + pid}, setup...)
			l = append(l, c13Ops(p, nh)...)
			isDir := false
			for _, d := range c13Dirs {
				if filepath.Clean(p) == d {
					isDir = true
				}
			}
			if !isDir { // Remove of a populated directory / Create over a directory are ill-formed for the source
				l = append(l, "remove "+h(p))
			} else {
				l = l[:len(l)-1]
			}
			l = append(l, "snapshot")
			cases = append(cases, corr.Case{Lines: l})
			// rename to and from, removeall, mkdir
			for _, q := range []string{"/d/b.dat", "/d/a.txt", "/d/renamed.txt", "/d/renamed", "/d/sub/abc"} {
				l := append([]string{"case re " + pid}, setup...)
				l = append(l, "rename "+h(p)+" "+h(q), "stat "+h(p), "stat "+h(q), "snapshot")
				cases = append(cases, corr.Case{Lines: l})
			}
			l2 := append([]string{"case re " + pid}, setup...)
			l2 = append(l2, "mkdir "+h(p)+" 493", "removeall "+h(p), "snapshot")
			cases = append(cases, corr.Case{Lines: l2})
		}
		// a name that was a directory and is a regular-file name later (the filter must judge it by what it is NOW)
		for _, fl := range []int{66, 0x241, 0x42 | 0x400} {
			l := append([]string{"case re " + pid}, setup...)
			l = append(l, "mkdirall "+h("/w/cache")+" 493", "stat "+h("/w/cache"), "open "+h("/w/cache"), "removeall "+h("/w"), "mkdir "+h("/w")+" 493",
				fmt.Sprintf("openfile %s %d 420", h("/w/cache"), fl), "create "+h("/w/cache"), "stat "+h("/w/cache"), "chmod "+h("/w/cache")+" 384", "snapshot",
				"mkdir "+h("/w/tmpdir")+" 493", "stat "+h("/w/tmpdir"), "remove "+h("/w/tmpdir"), "create "+h("/w/tmpdir"), "src.create "+h("/w/tmpdir"),
				"stat "+h("/w/tmpdir"), "open "+h("/w/tmpdir"), "remove "+h("/w/tmpdir"), "open "+h("/w"), fmt.Sprintf("h.readdirnames %d -1", nh+1), "snapshot")
			cases = append(cases, corr.Case{Lines: l})
		}
		// through the io/fs adapter, over sources whose directory handles are of different kinds
		{
			l := []string{"case re " + pid}
			for _, k := range []string{"mem", "cow-base", "cow-both", "cache", "bp", "ro", "re-x", "re-txt", "re-a"} {
				l = append(l, "iofs-list "+k+" "+pid)
			}
			l = append(l, "hstat-os "+pid)
			cases = append(cases, corr.Case{Lines: l})
		}
		// listings with every page size
		for _, d := range append([]string{"/"}, c13Dirs...) {
			for _, n := range []int{-1, 0, 1, 2, 3, 20} {
				l := append([]string{"case re " + pid}, setup...)
				l = append(l, "open "+h(d))
				for k := 0; k < 5; k++ {
					l = append(l, fmt.Sprintf("h.readdirnames %d %d", nh, n))
				}
				l = append(l, "open "+h(d), fmt.Sprintf("h.readdir %d %d", nh+1, n), fmt.Sprintf("h.readdir %d -1", nh+1))
				cases = append(cases, corr.Case{Lines: l})
			}
			// the same through OpenFile, whatever the access mode (the in-memory source opens a directory for writing too):
			// a listing is a listing
			l := append([]string{"case re " + pid}, setup...)
			for k, fl := range []int{0, 2, 1, 0x402, 0x101000} {
				l = append(l, fmt.Sprintf("openfile %s %d 420", h(d), fl), fmt.Sprintf("h.readdirnames %d 2", nh+k), fmt.Sprintf("h.readdir %d -1", nh+k))
			}
			cases = append(cases, corr.Case{Lines: l})
		}
	}
	return cases
}

func c13Random(r *corr.Rand, tier string) []corr.Case {
	n := 400
	if tier == "thorough" {
		n = 20000
	}
	h := corr.HexS
	pids := []string{"txt", "a", "x", "ac", "nodot"}
	var cases []corr.Case
	for i := 0; i < n; i++ {
		rr := r.Fork()
		setup, nh := c13Setup(rr)
		l := append([]string{"case re " + corr.Pick(rr, pids)}, setup...)
		var open []int
		all := append(append([]string{}, c13Files...), c13Dirs...)
		all = append(all, "/d/new.txt", "/d/newer", "/d/sub/x9", "/ab/../d/b.dat", "/d//a.txt", "/d/b.dat/", "/d/a.txt/", "/d/sub/note.txt/.", "/zed/")
		// names that are never directories: Create / write-open / Rename confuse files and directories
		// otherwise, which is ill-formed for the source (a directory replaced by a file orphans its children)
		nd := append(append([]string{}, c13Files...), "/d/new.txt", "/d/newer", "/d/sub/x9", "/ab/../d/b.dat", "/d//a.txt")
		for k := 0; k < 10+rr.Intn(25); k++ {
			p := corr.Pick(rr, all)
			switch q := rr.Intn(100); {
			case q < 12:
				l = append(l, "stat "+h(p))
			case q < 26:
				l = append(l, "open "+h(p))
				open = append(open, nh)
				nh++
			case q < 36:
				if fl := corr.Pick(rr, []int{0, 1, 2, 0x42, 0x242, 0x441}); fl == 0 {
					l = append(l, fmt.Sprintf("openfile %s %d 420", h(p), fl))
				} else {
					l = append(l, fmt.Sprintf("openfile %s %d 420", h(corr.Pick(rr, nd)), fl))
				}
				open = append(open, nh)
				nh++
			case q < 42:
				l = append(l, "create "+h(corr.Pick(rr, nd)))
				open = append(open, nh)
				nh++
			case q < 50:
				if rr.Chance(15) {
					l = append(l, "rename "+h(corr.Pick(rr, c13Dirs))+" "+h("/moved-dir"))
				} else {
					l = append(l, "rename "+h(corr.Pick(rr, nd))+" "+h(corr.Pick(rr, nd)))
				}
			case q < 56:
				// Remove of a populated directory is ill-formed for the source (it orphans the children)
				l = append(l, "remove "+h(corr.Pick(rr, append(append([]string{}, c13Files...), "/d/new.txt", "/d/newer", "/d//a.txt"))))
			case q < 59:
				l = append(l, "removeall "+h(p))
			case q < 68:
				l = append(l, fmt.Sprintf(corr.Pick(rr, []string{"chmod %s 384", "chown %s 1 1", "chtimes %s 5"}), h(p)))
			case q < 72:
				l = append(l, "mkdir "+h(corr.Pick(rr, []string{"/d/newdir", "/n", p}))+" 493")
			default:
				if len(open) == 0 {
					continue
				}
				hi := corr.Pick(rr, open)
				l = append(l, corr.Pick(rr, []string{fmt.Sprintf("h.read %d 8", hi), fmt.Sprintf("h.write %d 5758", hi), fmt.Sprintf("h.readdirnames %d %d", hi, corr.Pick(rr, []int{-1, 1, 2})),
					fmt.Sprintf("h.readdir %d %d", hi, corr.Pick(rr, []int{-1, 1, 3})), fmt.Sprintf("h.trunc %d 1", hi), fmt.Sprintf("h.close %d", hi), fmt.Sprintf("h.stat %d", hi)}))
			}
		}
		l = append(l, "snapshot")
		cases = append(cases, corr.Case{Lines: l})
	}
	return cases
}

func C13() *corr.Engine {
	return &corr.Engine{
		ID: "C13", DriverEngine: "refs",
		Exhaustive: c13Exhaustive, Random: c13Random,
		RunImpl: c13RunImpl, Oracle: c13Oracle,
		NonTrivial: func(c corr.Case, impl []string) bool { return true },
		Classify: func(c corr.Case, impl []string, hist map[string]int) {
			for i, l := range c.Lines {
				t := strings.Fields(l)
				hist["op:"+t[0]]++
				if t[0] == "case" {
					hist["pattern:"+t[2]]++
				}
				res := cowStrip(impl[i])
				if strings.HasPrefix(res, "err:") {
					hist[res]++
				}
			}
		},
		Rule: "every Fs method on every name class (matching file, non-matching file, directory, absent, unclean spellings) × 4 base-name patterns, renames to/from, listings with every page size, random sequences; every tree mixes matching and non-matching files in one directory (so every case is non-trivial); distinct by script hash",
		Signature: func(c corr.Case, impl []string, what string, line int) string {
			if line < 0 || line >= len(c.Lines) {
				line = 0
			}
			tag := ""
			if k := strings.Index(what, "#"); k >= 0 {
				tag = strings.FieldsFunc(what[k:], func(r rune) bool { return r == '(' || r == ' ' })[0]
			}
			return "C13:" + strings.Fields(c.Lines[line])[0] + tag
		},
		CompareLine: func(impl, model string) bool { return model == "unmodelled" || cowStrip(impl) == model },
	}
}
