package engines

import (
	"bytes"
	"fmt"
	"io"
	"os"
	"path/filepath"
	"sort"
	"strings"
	"time"

	"github.com/spf13/afero"

	"verifharness/corr"
)

// ---------------------------------------------------------------------------------------
// C05 — CopyOnWriteFs never modifies its base layer.
// C06 — CopyOnWriteFs view is overlay-over-base with content-preserving copy-up.
// One script engine (`cowfs`): case cow-mem | cow-os ; `b.<op>` / `l.<op>` act on the base /
// overlay directly (set-up), everything else goes through the union.
// Result lines carry oracle annotations after " #".
// ---------------------------------------------------------------------------------------

type cowStack struct {
	cow, base, layer afero.Fs
	cleanup          func()
}

func cowNew(name string) *cowStack {
	l := afero.NewMemMapFs()
	switch name {
	case "cow-mem":
		b := afero.NewMemMapFs()
		return &cowStack{afero.NewCopyOnWriteFs(b, l), b, l, func() {}}
	case "cow-os":
		dir, err := os.MkdirTemp("", "verif-cow-")
		if err != nil {
			panic(err)
		}
		syscallUmask()
		b := &rootedFs{afero.NewOsFs(), dir, false}
		return &cowStack{afero.NewCopyOnWriteFs(b, l), b, l, func() { os.RemoveAll(dir) }}
	case "cow-ro":
		b := afero.NewMemMapFs()
		return &cowStack{afero.NewCopyOnWriteFs(afero.NewReadOnlyFs(b), l), b, l, func() {}}
	case "cow-osl": // the overlay on the real file system (answers ENOTDIR below a regular file), the base in memory
		dir, err := os.MkdirTemp("", "verif-cowl-")
		if err != nil {
			panic(err)
		}
		syscallUmask()
		b := afero.NewMemMapFs()
		ol := &rootedFs{afero.NewOsFs(), dir, false}
		return &cowStack{afero.NewCopyOnWriteFs(b, ol), b, ol, func() { os.RemoveAll(dir) }}
	}
	panic("unknown stack " + name)
}

// view entry of one path, computed from the layers directly
type viewEntry struct {
	dir     bool
	data    []byte
	listing []string
}

func layerNodes(fs afero.Fs) map[string]Node {
	var ns []Node
	if _, ok := fs.(*afero.MemMapFs); ok {
		ns = SnapshotMem(fs)
	} else {
		ns = SnapshotWalk(fs, "/")
	}
	m := map[string]Node{}
	for _, n := range ns {
		m[n.Path] = n
	}
	return m
}

// expectedView: overlay's entry if it has one, else the base's; a directory present in both
// lists the union of the names once each.
func expectedView(base, layer afero.Fs) map[string]viewEntry {
	bn, ln := layerNodes(base), layerNodes(layer)
	v := map[string]viewEntry{}
	for p, n := range bn {
		v[p] = viewEntry{n.Dir, n.Data, n.Listing}
	}
	for p, n := range ln {
		e := viewEntry{n.Dir, n.Data, n.Listing}
		if b, ok := bn[p]; ok && b.Dir && n.Dir {
			set := map[string]bool{}
			for _, x := range b.Listing {
				set[x] = true
			}
			for _, x := range n.Listing {
				set[x] = true
			}
			e.listing = nil
			for x := range set {
				e.listing = append(e.listing, x)
			}
			sort.Strings(e.listing)
		}
		v[p] = e
	}
	return v
}

func viewString(v map[string]viewEntry) string {
	var ps []string
	for p := range v {
		ps = append(ps, p)
	}
	sort.Strings(ps)
	var b strings.Builder
	for _, p := range ps {
		e := v[p]
		fmt.Fprintf(&b, "%s|%v|%x|%s\n", p, e.dir, e.data, strings.Join(e.listing, ","))
	}
	return b.String()
}

// actualView reads every path of `want` through the union
func checkView(cow afero.Fs, want map[string]viewEntry) string {
	for p, e := range want {
		fi, err := cow.Stat(p)
		if err != nil {
			return fmt.Sprintf("Stat(%s) through the union fails (%s) but a layer has it", p, ErrClass(err))
		}
		if fi.IsDir() != e.dir {
			return fmt.Sprintf("Stat(%s): kind differs from the overlay-over-base entry", p)
		}
		f, err := cow.Open(p)
		if err != nil {
			return fmt.Sprintf("Open(%s) through the union fails: %s", p, ErrClass(err))
		}
		if e.dir {
			names, err := f.Readdirnames(-1)
			sort.Strings(names)
			if err != nil || strings.Join(names, ",") != strings.Join(e.listing, ",") {
				f.Close()
				return fmt.Sprintf("listing of %s through the union is %v, overlay-over-base gives %v", p, names, e.listing)
			}
			// the entries of the listing are the view's entries: kind and size of each listed FileInfo
			// are those of the overlay's entry if the overlay has the name, else the base's
			if g, err := cow.Open(p); err == nil {
				fis, _ := g.Readdir(-1)
				g.Close()
				for _, ci := range fis {
					child, ok := want[filepath.Join(p, ci.Name())]
					if !ok {
						continue
					}
					if ci.IsDir() != child.dir || (!child.dir && ci.Size() != int64(len(child.data))) {
						f.Close()
						return fmt.Sprintf("listing of %s: entry %s has dir=%v size=%d, the overlay-over-base entry has dir=%v size=%d",
							p, ci.Name(), ci.IsDir(), ci.Size(), child.dir, len(child.data))
					}
				}
			}
			// a second full listing on the same handle returns nothing more
			more, _ := f.Readdirnames(-1)
			if len(more) != 0 {
				f.Close()
				return fmt.Sprintf("listing of %s: a second Readdirnames(-1) returns %d more entries (pages must partition the listing)", p, len(more))
			}
		} else {
			b, _ := io.ReadAll(f)
			if !bytes.Equal(b, e.data) {
				f.Close()
				return fmt.Sprintf("content of %s through the union is %x, overlay-over-base gives %x", p, b, e.data)
			}
			if fi.Size() != int64(len(e.data)) {
				f.Close()
				return fmt.Sprintf("size of %s through the union is %d, want %d", p, fi.Size(), len(e.data))
			}
		}
		f.Close()
	}
	return ""
}

func cowRunImpl(c corr.Case) []string {
	var st *cowStack
	var r *Runner
	defer func() {
		if st != nil {
			r.CloseAll()
			st.cleanup()
		}
	}()
	old := time.Unix(1_600_000_000, 123_456_789) // not a whole second: a rounded or re-written time stamp shows
	direct := map[int]bool{}
	pages := map[int][]string{}
	handlePath := map[int]string{}
	muts := 0                  // number of lines so far that may have changed some directory's entries
	firstPage := map[int]int{} // handle -> value of muts at its first page
	out := make([]string, 0, len(c.Lines))
	for _, line := range c.Lines {
		t := strings.Fields(line)
		out = append(out, guard(func() string {
			if t[0] == "deep-osl" {
				return deepOSL(t[1])
			}
			if t[0] == "case" {
				if st != nil {
					r.CloseAll()
					st.cleanup()
				}
				st = cowNew(t[1])
				r = NewRunner(st.cow)
				r.Alt = map[string]afero.Fs{"b": st.base, "l": st.layer}
				direct, pages, handlePath = map[int]bool{}, map[int][]string{}, map[int]string{}
				muts, firstPage = 0, map[int]int{}
				return "case"
			}
			if op := strings.TrimPrefix(strings.TrimPrefix(t[0], "b."), "l."); !strings.HasPrefix(op, "h.") && op != "stat" && op != "open" && op != "snapshot" {
				muts++
			}
			switch t[0] {
			case "snapshot":
				bm, ok1 := st.base.(*afero.MemMapFs)
				if _, ok2 := st.layer.(*afero.MemMapFs); !ok1 || !ok2 {
					return "snap"
				}
				return "snap B{" + SnapLine(SnapshotMem(bm)) + "} L{" + SnapLine(SnapshotMem(st.layer)) + "}"
			case "b.age": // fixed old mtimes on the whole base so that any later stamp shows
				afero.Walk(st.base, "/", func(p string, fi os.FileInfo, err error) error {
					if err == nil {
						st.base.Chtimes(p, old, old)
					}
					return nil
				})
				return "ok"
			case "rtpatch": // open a file through the union for writing, patch bytes, read everything back
				p, off, patch := string(corr.UnHex(t[1])), atoi64(t[2]), corr.UnHex(t[3])
				before, err := afero.ReadFile(st.cow, p)
				if err != nil {
					return "rt skipped: " + ErrClass(err)
				}
				f, err := st.cow.OpenFile(p, os.O_RDWR, 0o644)
				if err != nil {
					return "rt fail: openfile " + ErrClass(err)
				}
				if _, err := f.WriteAt(patch, off); err != nil {
					f.Close()
					return "rt fail: writeat " + ErrClass(err)
				}
				f.Close()
				want := append([]byte{}, before...)
				for int64(len(want)) < off+int64(len(patch)) {
					want = append(want, 0)
				}
				copy(want[off:], patch)
				got, err := afero.ReadFile(st.cow, p)
				if err != nil || !bytes.Equal(got, want) {
					return fmt.Sprintf("rt fail: read back %x, want %x (all other bytes of the file must be kept)", got, want)
				}
				return "rt ok"
			}
			if strings.HasPrefix(t[0], "b.") || strings.HasPrefix(t[0], "l.") {
				res := r.Exec(t)
				if strings.HasPrefix(res, "h=") {
					direct[len(r.H)-1] = true
				}
				return res
			}
			if strings.HasPrefix(t[0], "h.") && direct[atoi(t[1])] {
				return r.Exec(t) + " #DIRECT"
			}
			baseBefore := FullSnapshot(st.base, "/")
			viewBefore := viewString(expectedView(st.base, st.layer))
			res := r.Exec(t)
			note := ""
			if FullSnapshot(st.base, "/") != baseBefore {
				note += " #BASE-MODIFIED"
			}
			want := expectedView(st.base, st.layer)
			// the listing oracle follows handles opened for reading; opening a directory for writing confuses
			// files and directories (EISDIR on a real file system) and promises no listing
			if strings.HasPrefix(res, "h=") && len(t) > 1 && (t[0] == "open" || t[0] == "openfile" && atoi(t[2])&(1|2|0x40|0x200|0x400) == 0) {
				handlePath[len(r.H)-1] = filepath.Clean("/" + string(corr.UnHex(t[1])))
				firstPage[len(r.H)-1] = muts // the listing a handle promises is the one of the moment it was opened
			}
			isErr := strings.HasPrefix(res, "err:")
			if isErr && !strings.HasPrefix(t[0], "h.") && viewString(want) != viewBefore {
				note += " #FAILED-CALL-CHANGED-VIEW"
			}
			if !strings.HasPrefix(t[0], "h.") || t[0] == "h.close" {
				if d := checkView(st.cow, want); d != "" {
					note += " #VIEW(" + d + ")"
				}
			}
			// pages of a listing handle partition the listing
			if t[0] == "h.readdir" || t[0] == "h.readdirnames" {
				hi := atoi(t[1])
				ns := pageNames(res)
				if _, seen := firstPage[hi]; !seen {
					firstPage[hi] = muts
				}
				pages[hi] = append(pages[hi], ns...)
				n := atoi(t[2])
				if n > 0 && len(ns) > n {
					note += " #PAGE-TOO-LONG"
				}
				seen := map[string]bool{}
				for _, x := range pages[hi] {
					if seen[x] {
						note += " #PAGE-REPEATS(" + string(corr.UnHex(strings.Split(x, "/")[0])) + ")"
						break
					}
					seen[x] = true
				}
				// (a directory changed between two pages of one handle is outside what the pages can promise)
				if e, ok := want[handlePath[hi]]; ok && e.dir && firstPage[hi] == muts && !strings.HasPrefix(res, "err:") && (n <= 0 || strings.HasSuffix(res, "err:eof")) {
					var got []string
					for _, x := range pages[hi] {
						got = append(got, string(corr.UnHex(strings.Split(x, "/")[0])))
					}
					sort.Strings(got)
					if strings.Join(got, ",") != strings.Join(e.listing, ",") {
						note += fmt.Sprintf(" #PAGES-NOT-THE-LISTING(got %v want %v)", got, e.listing)
					}
				}
			}
			return res + note
		}))
	}
	return out
}

func cowStrip(s string) string {
	if k := strings.Index(s, " #"); k >= 0 {
		return s[:k]
	}
	return s
}

func c05Oracle(c corr.Case, impl []string) (string, int) {
	for i, line := range c.Lines {
		t := strings.Fields(line)
		if impl[i] == "panic" {
			return "call panics: " + t[0], i
		}
		if strings.Contains(impl[i], "#BASE-MODIFIED") {
			return t[0] + " through the copy-on-write filesystem changed the base layer", i
		}
		if t[0] == "deep-osl" && strings.HasPrefix(impl[i], "fail") {
			return impl[i], i
		}
	}
	return "", -1
}

func c06Oracle(c corr.Case, impl []string) (string, int) {
	for i, line := range c.Lines {
		t := strings.Fields(line)
		if impl[i] == "panic" {
			return "call panics: " + t[0], i
		}
		if t[0] == "deep-osl" && strings.HasPrefix(impl[i], "fail") {
			return impl[i], i
		}
		for _, tag := range []string{"#VIEW(", "#FAILED-CALL-CHANGED-VIEW", "#PAGE-TOO-LONG", "#PAGE-REPEATS", "#PAGES-NOT-THE-LISTING"} {
			if k := strings.Index(impl[i], tag); k >= 0 {
				return t[0] + ": " + impl[i][k:], i
			}
		}
		if t[0] == "rtpatch" && strings.HasPrefix(impl[i], "rt fail") {
			return impl[i], i
		}
	}
	return "", -1
}

// ---- generators ----

var cowDirs = []string{"/d", "/d/s", "/e"}

// ("/d/f.tmp", "/d/f~": siblings whose names differ from another file's by a suffix a temporary copy might be given)
var cowFiles = []string{"/d/f", "/d/g", "/d/s/h", "/e/k", "/top", "/d/f.tmp", "/d/f~"}

// the 9 presence combinations for a file name and for a directory name
func cowPresenceSetup(fileIn, dirIn string) []string {
	h := corr.HexS
	var l []string
	add := func(prefix, p string, isDir bool, content string) {
		if isDir {
			l = append(l, fmt.Sprintf("%s.mkdirall %s 493", prefix, h(p)))
		} else {
			l = append(l, fmt.Sprintf("%s.mkdirall %s 493", prefix, h(filepath.Dir(p))))
			l = append(l, fmt.Sprintf("%s.create %s", prefix, h(p)))
			l = append(l, "__W "+content)
			l = append(l, "__C")
		}
	}
	// fileIn/dirIn ∈ {"none","base","layer","both"}
	if fileIn == "base" || fileIn == "both" {
		add("b", "/d/f", false, "626173652d636f6e74656e74") // "base-content"
	}
	if fileIn == "layer" || fileIn == "both" {
		add("l", "/d/f", false, "6c61796572")
	}
	// a sibling in the overlay that a copy-up of /d/f must leave alone
	add("l", "/d/f.tmp", false, "7369626c696e67")
	add("b", "/d/f~", false, "6f74686572")
	if dirIn == "base" || dirIn == "both" {
		add("b", "/d/s", true, "")
		add("b", "/d/s/inbase", false, "31")
		add("b", "/d/s/common", false, "32")
	}
	if dirIn == "layer" || dirIn == "both" {
		add("l", "/d/s", true, "")
		add("l", "/d/s/inlayer", false, "33")
		add("l", "/d/s/common", false, "34")
	}
	// resolve __W / __C to the handle index of the preceding create
	var out []string
	hidx := -1
	for _, x := range l {
		switch {
		case strings.HasPrefix(x, "__W "):
			out = append(out, fmt.Sprintf("h.write %d %s", hidx, strings.TrimPrefix(x, "__W ")))
		case x == "__C":
			out = append(out, fmt.Sprintf("h.close %d", hidx))
		default:
			if strings.Contains(x, ".create ") {
				hidx++
			}
			out = append(out, x)
		}
	}
	return append(out, "b.age")
}

func countHandles(lines []string) int {
	n := 0
	for _, l := range lines {
		if strings.Contains(l, ".create ") {
			n++
		}
	}
	return n
}

func cowExhaustive(tier string) []corr.Case {
	h := corr.HexS
	var cases []corr.Case
	pres := []string{"none", "base", "layer", "both"}
	stacks := []string{"cow-mem", "cow-os", "cow-ro"}
	for _, st := range stacks {
		for _, fp := range pres {
			for _, dp := range pres {
				setup := cowPresenceSetup(fp, dp)
				nh := countHandles(setup)
				// every flag × the file target, then every handle method
				flags := c07Flags
				if st != "cow-mem" && tier != "thorough" {
					flags = []int{0, 1, 2, 0x42, 0x242, 0x101000, 0x441, 0xc1, 0x80, 0x200, 0x400, 0x600, 0x240, 0x40}
				}
				for _, fl := range flags {
					l := append([]string{"case " + st}, setup...)
					l = append(l, fmt.Sprintf("openfile %s %d 420", h("/d/f"), fl))
					l = append(l, c07HandleOps(nh)...)
					l = append(l, "stat "+h("/d/f"), "snapshot")
					cases = append(cases, corr.Case{Lines: l})
				}
				// every flag × a directory target (a directory is never copied up, and opening it must not touch the base)
				dflags := []int{0, 1, 2, 0x42, 0x242, 0x202, 0x201, 0x401, 0x441, 0xc2, 0x200, 0x400}
				if st == "cow-mem" || tier == "thorough" {
					dflags = flags
				}
				for _, fl := range dflags {
					l := append([]string{"case " + st}, setup...)
					l = append(l, fmt.Sprintf("openfile %s %d 420", h("/d/s"), fl))
					l = append(l, c07HandleOps(nh)...)
					l = append(l, "stat "+h("/d/s"), "snapshot")
					cases = append(cases, corr.Case{Lines: l})
				}
				// every Fs method on file and directory targets
				for _, tg := range []string{"/d/f", "/d/s", "/d/s/common", "/d/s/inbase", "/absent/x"} {
					l := append([]string{"case " + st}, setup...)
					for _, m := range []string{"stat %s", "chmod %s 384", "chown %s 1 1", "chtimes %s 5", "mkdir %s 493", "mkdirall %s 493"} {
						l = append(l, fmt.Sprintf(m, h(tg)))
					}
					l = append(l, "open "+h(tg))
					l = append(l, c07HandleOps(nh)...)
					l = append(l, "rename "+h(tg)+" "+h("/d/moved"), "remove "+h(tg), "removeall "+h(tg), "create "+h("/d/newfile"), "snapshot")
					cases = append(cases, corr.Case{Lines: l})
				}
				// listing with every page size on the directory present per `dp`
				for _, n := range []int{-1, 0, 1, 2, 3, 4} {
					l := append([]string{"case " + st}, setup...)
					l = append(l, "open "+h("/d/s"))
					for k := 0; k < 4; k++ {
						l = append(l, fmt.Sprintf("h.readdirnames %d %d", nh, n))
					}
					l = append(l, "open "+h("/d/s"), fmt.Sprintf("h.readdir %d 1", nh+1), fmt.Sprintf("h.readdir %d -1", nh+1), fmt.Sprintf("h.readdir %d -1", nh+1), fmt.Sprintf("h.readdir %d 1", nh+1))
					cases = append(cases, corr.Case{Lines: l})
					// Readdir and Readdirnames mixed on ONE handle: they page through one listing with one cursor
					if n >= 1 {
						for _, mix := range [][]string{{"h.readdir %d " + fmt.Sprint(n), "h.readdirnames %d -1", "h.readdir %d -1"}, {"h.readdirnames %d " + fmt.Sprint(n), "h.readdir %d 1", "h.readdirnames %d -1"}} {
							l := append([]string{"case " + st}, setup...)
							l = append(l, "open "+h("/d/s"))
							for _, mline := range mix {
								l = append(l, fmt.Sprintf(mline, nh))
							}
							cases = append(cases, corr.Case{Lines: l})
						}
					}
				}
				// partial modification of the file target keeps its other bytes
				for _, off := range []int{0, 3, 12, 20} {
					l := append([]string{"case " + st}, setup...)
					l = append(l, fmt.Sprintf("rtpatch %s %d 5858", h("/d/f"), off), "snapshot")
					cases = append(cases, corr.Case{Lines: l})
				}
			}
		}
	}
	// type clashes on a path prefix: a directory in the overlay over a base file, a file in the overlay
	// over a base directory; operations on names below them (a layer that keeps real directories
	// answers ENOTDIR there, which means "not in this layer")
	for _, st := range append(append([]string{}, stacks...), "cow-osl") {
		setup := []string{"case " + st, "b.create " + h("/c"), "h.write 0 62", "h.close 0", "b.mkdirall " + h("/k") + " 493", "b.create " + h("/k/f"), "h.write 1 6b66", "h.close 1",
			"l.mkdirall " + h("/c") + " 493", "l.create " + h("/c/in"), "h.write 2 696e", "h.close 2", "l.create " + h("/k"), "h.write 3 6c6b", "h.close 3", "b.age"}
		for _, ops := range [][]string{
			{"stat " + h("/c/new"), "create " + h("/c/new"), "h.write 4 6e", "h.close 4", "stat " + h("/c/new"), "open " + h("/c"), "h.readdirnames 5 -1"},
			{"openfile " + h("/c/new") + " 66 420", "h.write 4 6e", "h.close 4", "stat " + h("/c/in"), "mkdir " + h("/c/sub") + " 493", "stat " + h("/c")},
			{"stat " + h("/k/f"), "open " + h("/k/f"), "h.read 4 8", "stat " + h("/k"), "stat " + h("/k/absent"), "openfile " + h("/k/f") + " 2 420"},
			{"remove " + h("/c/in"), "stat " + h("/c/in"), "chmod " + h("/c/in") + " 384", "rename " + h("/c/in") + " " + h("/c/moved"), "stat " + h("/c/absent")},
		} {
			cases = append(cases, corr.Case{Lines: append(append(append([]string{}, setup...), ops...), "snapshot")})
		}
	}
	// files several directories deep below an overlay that keeps real directories
	cases = append(cases, corr.Case{Lines: []string{"case cow-mem", "deep-osl cow"}})
	// a base file larger than any copy buffer (32 KiB): after the copy-up nothing of the overlay's copy may still be
	// the base's memory — patch it, truncate and rewrite it, and the base must keep every byte
	for _, st := range []string{"cow-mem", "cow-ro"} {
		big := strings.Repeat("000102030405060708090a0b0c0d0e0f", 2600) // 41600 bytes
		l := []string{"case " + st, "b.mkdirall " + h("/d") + " 493", "b.create " + h("/d/big"), "h.write 0 " + big, "h.close 0", "b.age",
			"rtpatch " + h("/d/big") + " 100 5858585858585858", "snapshot",
			"openfile " + h("/d/big") + " 514 420", "h.write 1 6e657720636f6e74656e7473", "h.close 1", "snapshot",
			"create " + h("/d/big"), "h.write 2 7a", "h.close 2", "snapshot"}
		cases = append(cases, corr.Case{Lines: l})
		l = []string{"case " + st, "b.mkdirall " + h("/d") + " 493", "b.create " + h("/d/big"), "h.write 0 " + big, "h.close 0", "b.age",
			"chmod " + h("/d/big") + " 384", "openfile " + h("/d/big") + " 2 420", "h.writeat 1 5959595959 33000", "h.seek 1 5 0", "h.write 1 5a5a", "h.trunc 1 7", "h.close 1", "snapshot"}
		cases = append(cases, corr.Case{Lines: l})
	}
	// base files that end in zero bytes (one whole copy block of them, a few, nothing but zeros): a copy-up keeps their length
	for _, st := range []string{"cow-mem", "cow-ro"} {
		for fi, content := range []string{strings.Repeat("000102030405060708090a0b0c0d0e0f", 2048) + strings.Repeat("00", 512), strings.Repeat("00", 100), strings.Repeat("00", 40000), "6162" + strings.Repeat("00", 33000)} {
			for _, op := range []string{"chmod %s 384", "chtimes %s 5", "openfile %s 2 420"} {
				l := []string{"case " + st, "b.mkdirall " + h("/d") + " 493", "b.create " + h("/d/z"), "h.write 0 " + content, "h.close 0", "b.age",
					fmt.Sprintf(op, h("/d/z")), "stat " + h("/d/z"), "open " + h("/d/z"), fmt.Sprintf("h.seek %d -3 2", map[bool]int{true: 2, false: 1}[strings.HasPrefix(op, "openfile")]), "snapshot"}
				_ = fi
				cases = append(cases, corr.Case{Lines: l})
			}
		}
	}
	// a listing through a union handle, a rewind of the handle, a listing again: every name once
	for _, st := range stacks {
		l := []string{"case " + st, "b.mkdirall " + h("/d") + " 493", "l.mkdirall " + h("/d") + " 493"}
		nh := 0
		for _, n := range []string{"/d/b1", "/d/b2", "/d/both"} {
			l = append(l, "b.create "+h(n), fmt.Sprintf("h.close %d", nh))
			nh++
		}
		for _, n := range []string{"/d/l1", "/d/both"} {
			l = append(l, "l.create "+h(n), fmt.Sprintf("h.close %d", nh))
			nh++
		}
		l = append(l, "b.age", "open "+h("/d"), fmt.Sprintf("h.readdirnames %d -1", nh), fmt.Sprintf("h.seek %d 0 0", nh), fmt.Sprintf("h.readdirnames %d -1", nh),
			"open "+h("/d"), fmt.Sprintf("h.readdir %d 2", nh+1), fmt.Sprintf("h.seek %d 0 0", nh+1), fmt.Sprintf("h.readdir %d 2", nh+1), fmt.Sprintf("h.readdir %d -1", nh+1),
			"chmod "+h("/d/b1")+" 384", "open "+h("/d"), fmt.Sprintf("h.readdirnames %d 2", nh+2), "chmod "+h("/d/b2")+" 384", fmt.Sprintf("h.seek %d 0 0", nh+2), fmt.Sprintf("h.readdirnames %d -1", nh+2), "snapshot")
		cases = append(cases, corr.Case{Lines: l})
	}
	// a wide directory (more entries than any small-slice special case of a sort or a map): every
	// name in both layers with different sizes, listed whole and in pages
	for _, st := range stacks {
		for _, w := range []int{7, 13, 24} {
			l := []string{"case " + st, "b.mkdirall " + h("/d") + " 493", "l.mkdirall " + h("/d") + " 493"}
			nh := 0
			for k := 0; k < w; k++ {
				name := fmt.Sprintf("/d/w%02d", (k*7)%w)
				l = append(l, "b.create "+h(name), fmt.Sprintf("h.write %d 6262626262", nh), fmt.Sprintf("h.close %d", nh),
					"l.create "+h(name), fmt.Sprintf("h.write %d 6c", nh+1), fmt.Sprintf("h.close %d", nh+1))
				nh += 2
			}
			l = append(l, "b.age", "open "+h("/d"), fmt.Sprintf("h.readdir %d -1", nh), "open "+h("/d"), fmt.Sprintf("h.readdir %d 5", nh+1),
				fmt.Sprintf("h.readdir %d 5", nh+1), fmt.Sprintf("h.readdir %d -1", nh+1), "stat "+h("/d/w03"),
				// a page size at the top of the int range after a partial page
				"open "+h("/d"), fmt.Sprintf("h.readdir %d 2", nh+2), fmt.Sprintf("h.readdir %d 9223372036854775807", nh+2), fmt.Sprintf("h.readdir %d 1", nh+2),
				"open "+h("/d"), fmt.Sprintf("h.readdirnames %d 1", nh+3), fmt.Sprintf("h.readdirnames %d 9223372036854775806", nh+3), "snapshot")
			cases = append(cases, corr.Case{Lines: l})
		}
	}
	return cases
}

func cowRandom(r *corr.Rand, tier string) []corr.Case {
	n := 300
	if tier == "thorough" {
		n = 20000
	}
	h := corr.HexS
	var cases []corr.Case
	for i := 0; i < n; i++ {
		rr := r.Fork()
		st := corr.Pick(rr, []string{"cow-mem", "cow-mem", "cow-os", "cow-ro"})
		l := []string{"case " + st}
		nh := 0
		// random initial layers: each directory / file in base, overlay, both or neither
		for _, d := range cowDirs {
			for _, pfx := range []string{"b", "l"} {
				if rr.Chance(55) {
					l = append(l, fmt.Sprintf("%s.mkdirall %s 493", pfx, h(d)))
				}
			}
		}
		for _, f := range cowFiles {
			for _, pfx := range []string{"b", "l"} {
				if rr.Chance(45) {
					l = append(l, fmt.Sprintf("%s.mkdirall %s 493", pfx, h(filepath.Dir(f))), fmt.Sprintf("%s.create %s", pfx, h(f)),
						fmt.Sprintf("h.write %d %s", nh, corr.Hex(payload(rr, 1+rr.Intn(12)))), fmt.Sprintf("h.close %d", nh))
					nh++
				}
			}
		}
		// a wide directory: many names, most of them in both layers with different contents
		if rr.Chance(15) {
			w := 8 + rr.Intn(16)
			l = append(l, "b.mkdirall "+h("/d")+" 493", "l.mkdirall "+h("/d")+" 493")
			for k := 0; k < w; k++ {
				name := fmt.Sprintf("/d/w%02d", k)
				for _, pfx := range []string{"b", "l"} {
					if rr.Chance(85) {
						l = append(l, fmt.Sprintf("%s.create %s", pfx, h(name)),
							fmt.Sprintf("h.write %d %s", nh, corr.Hex(payload(rr, 1+rr.Intn(9)))), fmt.Sprintf("h.close %d", nh))
						nh++
					}
				}
			}
		}
		l = append(l, "b.age")
		openH := []int{}
		for k := 0; k < 8+rr.Intn(25); k++ {
			f, d := corr.Pick(rr, cowFiles), corr.Pick(rr, cowDirs)
			switch q := rr.Intn(100); {
			case q < 14:
				l = append(l, fmt.Sprintf("openfile %s %d 420", h(f), corr.Pick(rr, []int{0, 1, 2, 0x42, 0x241, 0x242, 0x441, 0x101000, 0xc2, 0x202})))
				openH = append(openH, nh)
				nh++
			case q < 20:
				l = append(l, "create "+h(f))
				openH = append(openH, nh)
				nh++
			case q < 30:
				l = append(l, "open "+h(corr.Pick(rr, append(append([]string{}, cowFiles...), cowDirs...))))
				openH = append(openH, nh)
				nh++
			case q < 36:
				l = append(l, fmt.Sprintf("mkdir %s 493", h(d)))
			case q < 40:
				l = append(l, fmt.Sprintf("mkdirall %s 493", h(d)))
			case q < 46:
				l = append(l, "remove "+h(f))
			case q < 49:
				l = append(l, "removeall "+h(corr.Pick(rr, []string{"/d/s", "/e", f})))
			case q < 55:
				l = append(l, "rename "+h(f)+" "+h(corr.Pick(rr, cowFiles)))
			case q < 62:
				l = append(l, fmt.Sprintf(corr.Pick(rr, []string{"chmod %s 384", "chown %s 1 1", "chtimes %s 5"}), h(corr.Pick(rr, []string{f, f, d}))))
			case q < 68:
				l = append(l, "stat "+h(corr.Pick(rr, []string{f, d})))
			case q < 74:
				l = append(l, fmt.Sprintf("rtpatch %s %d %s", h(f), rr.Intn(14), corr.Hex(payload(rr, 1+rr.Intn(3)))))
			default:
				if len(openH) == 0 {
					continue
				}
				hi := corr.Pick(rr, openH)
				ops := append(c07HandleOps(hi), fmt.Sprintf("h.readdirnames %d %d", hi, corr.Pick(rr, []int{-1, 0, 1, 2})), fmt.Sprintf("h.readdir %d %d", hi, corr.Pick(rr, []int{-1, 1, 2})))
				l = append(l, corr.Pick(rr, ops))
			}
		}
		l = append(l, "snapshot")
		cases = append(cases, corr.Case{Lines: l})
	}
	return cases
}

func cowClassify(c corr.Case, impl []string, hist map[string]int) {
	for i, l := range c.Lines {
		t := strings.Fields(l)
		hist["op:"+t[0]]++
		if t[0] == "case" {
			hist["stack:"+t[1]]++
		}
		res := cowStrip(impl[i])
		if strings.HasPrefix(res, "err:") {
			hist[res]++
		}
	}
	if cowHasCopyUp(c, impl) {
		hist["branch:copy-up"]++
	}
}

// a copy-up happened if a write-type open / metadata change named a base-only file (approximation
// from the script: the overlay snapshot at the end holds a path the set-up only put in the base)
func cowHasCopyUp(c corr.Case, impl []string) bool {
	baseOnly := map[string]bool{}
	for _, l := range c.Lines {
		t := strings.Fields(l)
		if t[0] == "b.create" {
			baseOnly[string(corr.UnHex(t[1]))] = true
		}
		if t[0] == "l.create" {
			delete(baseOnly, string(corr.UnHex(t[1])))
		}
	}
	for i, l := range c.Lines {
		t := strings.Fields(l)
		if (t[0] == "openfile" && atoi(t[2])&0x643 != 0 || t[0] == "chmod" || t[0] == "chtimes" || t[0] == "chown" || t[0] == "create" || t[0] == "rtpatch") &&
			baseOnly[filepath.Clean("/"+string(corr.UnHex(t[1])))] && !strings.HasPrefix(cowStrip(impl[i]), "err:") {
			return true
		}
	}
	return false
}

func cowWroteThroughHandle(c corr.Case, impl []string) bool {
	for i, l := range c.Lines {
		t := strings.Fields(l)
		if (t[0] == "h.write" || t[0] == "h.writeat" || t[0] == "rtpatch") && !strings.Contains(impl[i], "#DIRECT") {
			return true
		}
	}
	return false
}

func cowSig(id string) func(c corr.Case, impl []string, what string, line int) string {
	return func(c corr.Case, impl []string, what string, line int) string {
		if line < 0 || line >= len(c.Lines) {
			line = 0
		}
		tag := ""
		if k := strings.Index(what, "#"); k >= 0 {
			tag = strings.FieldsFunc(what[k:], func(r rune) bool { return r == '(' || r == ' ' })[0]
		}
		return id + ":" + strings.Fields(c.Lines[line])[0] + ":" + strings.Fields(c.Lines[0])[1] + tag
	}
}

func C05() *corr.Engine {
	return &corr.Engine{
		ID: "C05", DriverEngine: "cowfs",
		Exhaustive: cowExhaustive, Random: cowRandom,
		Corpus: func() []corr.Case {
			h := corr.HexS
			l := append([]string{"case cow-mem"}, cowPresenceSetup("base", "base")...)
			// S4 through the union: O_SYNC requests no write access and is routed to the base
			l = append(l, fmt.Sprintf("openfile %s %d 420", h("/d/f"), 0x101000), "h.write 3 5858", "h.trunc 3 0", "h.close 3", "snapshot")
			return []corr.Case{{Lines: l}}
		},
		RunImpl: cowRunImpl, Oracle: c05Oracle,
		NonTrivial: func(c corr.Case, impl []string) bool { return cowHasCopyUp(c, impl) && cowWroteThroughHandle(c, impl) },
		Classify:   cowClassify,
		Rule:       "9 base/overlay presence combinations × (flag table × every handle method, every Fs method on file/dir targets, every page size, partial patches) on cow(mem,mem), cow(os,mem), cow(ro(mem),mem) + random histories over random layer pairs; non-trivial = at least one copy-up and at least one write through a handle returned by the union; distinct by script hash",
		Signature:  cowSig("C05"),
		CompareLine: func(impl, model string) bool {
			return model == "unmodelled" || cowStrip(impl) == model || namesSetEq(cowStrip(impl), model)
		},
	}
}

func C06() *corr.Engine {
	e := C05()
	e.ID = "C06"
	e.Oracle = c06Oracle
	e.Corpus = func() []corr.Case {
		h := corr.HexS
		l := append([]string{"case cow-mem"}, cowPresenceSetup("both", "both")...)
		nh := countHandles(l)
		// S24: a second Readdir(-1) on a union directory handle returns nothing more
		l = append(l, "open "+h("/d/s"), fmt.Sprintf("h.readdirnames %d -1", nh), fmt.Sprintf("h.readdirnames %d -1", nh), fmt.Sprintf("h.readdirnames %d 1", nh))
		return []corr.Case{{Lines: l}}
	}
	e.NonTrivial = func(c corr.Case, impl []string) bool {
		pagesOnUnion, patch := 0, false
		for i, l := range c.Lines {
			t := strings.Fields(l)
			if (t[0] == "h.readdir" || t[0] == "h.readdirnames") && !strings.Contains(impl[i], "#DIRECT") && !strings.HasPrefix(impl[i], "err:") {
				pagesOnUnion++
			}
			if t[0] == "rtpatch" && impl[i] == "rt ok" {
				patch = true
			}
		}
		return pagesOnUnion >= 2 || (patch && cowHasCopyUp(c, impl))
	}
	e.Rule = "same generators as C05; non-trivial = a directory listed through the union in at least 2 pages, or a partial write to a base-only file; distinct by script hash"
	e.Signature = cowSig("C06")
	return e
}

// the union listing order is Go map order (unspecified): a page is compared with the model by
// its length and error class; that the pages partition the right listing is the oracle's job
func namesSetEq(a, b string) bool {
	fa, fb := strings.Fields(a), strings.Fields(b)
	if len(fa) >= 1 && len(fb) >= 1 && fa[0] == "rt" && fb[0] == "rt" {
		return true
	}
	if len(fa) != 2 || len(fb) != 2 || fa[1] != fb[1] {
		return false
	}
	for _, p := range []string{"names=", "infos="} {
		if strings.HasPrefix(fa[0], p) && strings.HasPrefix(fb[0], p) {
			cnt := func(s string) int {
				if s == "" {
					return 0
				}
				return len(strings.Split(s, ","))
			}
			return cnt(fa[0][len(p):]) == cnt(fb[0][len(p):])
		}
	}
	return false
}
