package engines

import (
	"archive/tar"
	"archive/zip"
	"bytes"
	"errors"
	"fmt"
	"hash/crc32"
	"io"
	"os"
	"path"
	"path/filepath"
	"sort"
	"strconv"
	"strings"
	"sync"
	"time"

	"github.com/spf13/afero"
	"github.com/spf13/afero/tarfs"
	"github.com/spf13/afero/zipfs"

	"verifharness/corr"
)

// ---------------------------------------------------------------------------------------
// C14 — zipfs and tarfs expose archive contents faithfully and immutably.
// Script (engine `archive`):
//   case zip-store|zip-deflate|tar <entries>     entries: `-` or name:d|f:data , …
//                                                 name hex; data hex | - | g<seed>x<len>
//   ocase …                                       same, but the Lean driver answers `unmodelled`
//   stat p | open p | openfile p flag | create p | mkdir p | mkdirall p | remove p | removeall p
//   rename p q | chmod p | chown p | chtimes p
//   h.read k n | h.readat k n off | h.seek k off wh | h.close k | h.readdir k n | h.readdirnames k n
//   h.stat k | h.name k | h.sync k | h.write k hex | h.writeat k hex off | h.writestring k hex | h.trunc k n
// The archive is built in memory with archive/zip (Store or Deflate) or archive/tar from the
// entry list in the header; the entry list itself is the oracle.
// ---------------------------------------------------------------------------------------

type c14Ent struct {
	name string
	dir  bool
	data []byte
	spec string // how the data is written in the header
}

func c14GenData(seed, n int) []byte {
	b := make([]byte, n)
	for i := range b {
		b[i] = byte((seed + i*31 + i/251) % 256)
	}
	return b
}

func c14ParseData(s string) []byte {
	if strings.HasPrefix(s, "g") {
		p := strings.SplitN(s[1:], "x", 2)
		return c14GenData(atoi(p[0]), atoi(p[1]))
	}
	return corr.UnHex(s)
}

func c14ParseEntries(s string) []c14Ent {
	if s == "-" {
		return nil
	}
	var es []c14Ent
	for _, item := range strings.Split(s, ",") {
		p := strings.Split(item, ":")
		es = append(es, c14Ent{name: string(corr.UnHex(p[0])), dir: p[1] == "d", data: c14ParseData(p[2]), spec: p[2]})
	}
	return es
}

func c14Header(kind string, es []c14Ent) string {
	if len(es) == 0 {
		return "case " + kind + " -"
	}
	var items []string
	for _, e := range es {
		k, spec := "f", e.spec
		if e.dir {
			k, spec = "d", "-"
		} else if spec == "" {
			spec = corr.Hex(e.data)
		}
		items = append(items, corr.HexS(e.name)+":"+k+":"+spec)
	}
	return "case " + kind + " " + strings.Join(items, ",")
}

func c14BuildZip(es []c14Ent, method uint16) (afero.Fs, error) {
	var buf bytes.Buffer
	w := zip.NewWriter(&buf)
	for _, e := range es {
		hdr := &zip.FileHeader{Name: e.name, Method: method}
		if e.dir { // a directory entry is marked by its mode bits; most writers also end its name in a slash, some do not
			hdr.SetMode(os.ModeDir | 0o755)
		}
		fw, err := w.CreateHeader(hdr)
		if err != nil {
			return nil, err
		}
		if !e.dir {
			if _, err := fw.Write(e.data); err != nil {
				return nil, err
			}
		}
	}
	if err := w.Close(); err != nil {
		return nil, err
	}
	r, err := zip.NewReader(bytes.NewReader(buf.Bytes()), int64(buf.Len()))
	if err != nil {
		return nil, err
	}
	return zipfs.New(r), nil
}

func c14BuildTar(es []c14Ent) (afero.Fs, error) {
	var buf bytes.Buffer
	w := tar.NewWriter(&buf)
	for _, e := range es {
		h := &tar.Header{Name: e.name, Mode: 0o644, Size: int64(len(e.data)), Typeflag: tar.TypeReg}
		if e.dir {
			h.Typeflag, h.Size, h.Mode = tar.TypeDir, 0, 0o755
		}
		if err := w.WriteHeader(h); err != nil {
			return nil, err
		}
		if !e.dir {
			if _, err := w.Write(e.data); err != nil {
				return nil, err
			}
		}
	}
	if err := w.Close(); err != nil {
		return nil, err
	}
	fs := tarfs.New(tar.NewReader(&buf))
	if fs == nil {
		return nil, fmt.Errorf("tarfs.New returned nil")
	}
	return fs, nil
}

func c14Build(kind string, es []c14Ent) (afero.Fs, error) {
	switch kind {
	case "zip-store":
		return c14BuildZip(es, zip.Store)
	case "zip-deflate":
		return c14BuildZip(es, zip.Deflate)
	case "tar":
		return c14BuildTar(es)
	}
	return nil, fmt.Errorf("unknown archive kind %s", kind)
}

func c14Fnv(b []byte) uint64 {
	h := uint64(14695981039346656037)
	for _, x := range b {
		h = (h ^ uint64(x)) * 1099511628211
	}
	return h
}

// long reads are compared by length and digest
func c14Bytes(b []byte) string {
	if len(b) <= 32 {
		return corr.Hex(b)
	}
	return fmt.Sprintf("#%d:%d", len(b), c14Fnv(b))
}

func c14Err(err error) string {
	if errors.Is(err, afero.ErrOutOfRange) {
		return "range"
	}
	c := ErrClass(err)
	if strings.HasPrefix(c, "other(") && strings.Contains(c, "invalid whence") {
		return "inval"
	}
	return c
}

func c14Info(fi os.FileInfo) string {
	return fmt.Sprintf("info name=%s size=%d dir=%v", corr.HexS(fi.Name()), fi.Size(), fi.IsDir())
}

var c14Time = time.Unix(1_700_000_000, 0)

func c14FsErr(err error) string {
	if err == nil {
		return "ok"
	}
	return "err:" + c14Err(err)
}

func c14RunImpl(c corr.Case) []string {
	var fs afero.Fs
	var hs []afero.File
	isZip := false
	var curKind string
	var curEnts []c14Ent
	out := make([]string, 0, len(c.Lines))
	for _, line := range c.Lines {
		t := strings.Fields(line)
		out = append(out, guard(func() string {
			arg := func(i int) string { return string(corr.UnHex(t[i])) }
			open := func(f afero.File, err error) string {
				if err != nil || f == nil {
					return "err:" + c14Err(err)
				}
				hs = append(hs, f)
				return fmt.Sprintf("h=%d", len(hs)-1)
			}
			switch t[0] {
			case "case", "ocase":
				var err error
				hs = nil
				isZip = strings.HasPrefix(t[1], "zip")
				curKind, curEnts = t[1], c14ParseEntries(t[2])
				fs, err = c14Build(t[1], c14ParseEntries(t[2]))
				if err != nil {
					fs = nil
					return "setup-failed:" + err.Error()
				}
				return "case"
			}
			if fs == nil {
				return "no-archive"
			}
			switch t[0] {
			case "seekcopy":
				return c14SeekCopy(fs, curEnts, arg(1), atoi64(t[2]))
			case "concwalk":
				return c14ConcWalk(curKind, curEnts)
			case "stat":
				fi, err := fs.Stat(arg(1))
				if err != nil {
					return "err:" + c14Err(err)
				}
				return c14Info(fi)
			case "open":
				return open(fs.Open(arg(1)))
			case "openfile":
				return open(fs.OpenFile(arg(1), atoi(t[2]), 0o644))
			case "create":
				f, err := fs.Create(arg(1))
				if err == nil && f != nil {
					return "ok"
				}
				return "err:" + c14Err(err)
			case "mkdir":
				return c14FsErr(fs.Mkdir(arg(1), 0o755))
			case "mkdirall":
				return c14FsErr(fs.MkdirAll(arg(1), 0o755))
			case "remove":
				return c14FsErr(fs.Remove(arg(1)))
			case "removeall":
				return c14FsErr(fs.RemoveAll(arg(1)))
			case "rename":
				return c14FsErr(fs.Rename(arg(1), arg(2)))
			case "chmod":
				return c14FsErr(fs.Chmod(arg(1), 0o600))
			case "chown":
				return c14FsErr(fs.Chown(arg(1), 1, 1))
			case "chtimes":
				return c14FsErr(fs.Chtimes(arg(1), c14Time, c14Time))
			}
			if !strings.HasPrefix(t[0], "h.") {
				return "bad-op"
			}
			hi := atoi(t[1])
			if hi >= len(hs) {
				return "err:inval"
			}
			h := hs[hi]
			switch t[0] {
			case "h.read":
				b := make([]byte, atoi(t[2]))
				n, err := h.Read(b)
				res := fmt.Sprintf("bytes=%s err:%s", c14Bytes(b[:n]), c14Err(err))
				scribble(b) // the buffer is the caller's again: a handle that kept it would now read these bytes back
				return res
			case "h.readat":
				b := make([]byte, atoi(t[2]))
				n, err := h.ReadAt(b, atoi64(t[3]))
				res := fmt.Sprintf("bytes=%s err:%s", c14Bytes(b[:n]), c14Err(err))
				scribble(b)
				return res
			case "h.seek":
				p, err := h.Seek(atoi64(t[2]), atoi(t[3]))
				if err != nil {
					return "err:" + c14Err(err)
				}
				return fmt.Sprintf("pos=%d", p)
			case "h.close":
				return c14FsErr(h.Close())
			case "h.readdir":
				cnt := atoi(t[2])
				fis, err := h.Readdir(cnt)
				if err != nil {
					return "err:" + c14Err(err)
				}
				if isZip && cnt > 0 {
					return fmt.Sprintf("count=%d", len(fis))
				}
				var ns []string
				for _, fi := range fis {
					k := "/f"
					if fi.IsDir() {
						k = "/d"
					}
					ns = append(ns, fi.Name()+k)
				}
				sort.Strings(ns)
				for i := range ns {
					ns[i] = corr.HexS(ns[i][:len(ns[i])-2]) + ns[i][len(ns[i])-2:]
				}
				return "infos=" + strings.Join(ns, ",")
			case "h.readdirnames":
				cnt := atoi(t[2])
				names, err := h.Readdirnames(cnt)
				if err != nil {
					return "err:" + c14Err(err)
				}
				if isZip && cnt > 0 {
					return fmt.Sprintf("count=%d", len(names))
				}
				sort.Strings(names)
				var ns []string
				for _, n := range names {
					ns = append(ns, corr.HexS(n))
				}
				return "names=" + strings.Join(ns, ",")
			case "h.stat":
				fi, err := h.Stat()
				if err != nil {
					return "err:" + c14Err(err)
				}
				return c14Info(fi)
			case "h.name":
				return "str=" + corr.HexS(h.Name())
			case "h.sync":
				return c14FsErr(h.Sync())
			case "h.write":
				n, err := h.Write(corr.UnHex(t[2]))
				return fmt.Sprintf("n=%d err:%s", n, c14Err(err))
			case "h.writeat":
				n, err := h.WriteAt(corr.UnHex(t[2]), atoi64(t[3]))
				return fmt.Sprintf("n=%d err:%s", n, c14Err(err))
			case "h.writestring":
				n, err := h.WriteString(string(corr.UnHex(t[2])))
				return fmt.Sprintf("n=%d err:%s", n, c14Err(err))
			case "h.trunc":
				return c14FsErr(h.Truncate(atoi64(t[2])))
			}
			return "bad-op"
		}))
	}
	for _, h := range hs {
		func() { defer func() { recover() }(); h.Close() }()
	}
	return out
}

// ---- the property oracle: the entry list itself (independent of Lean) ----

func c14Clean(name string) string { return path.Clean("/" + name) }

type c14OH struct {
	ent    int // index into entries; -1 = root; -2 = ambiguous / not judged
	pos    int64
	closed bool
	reads  int
}

type c14View struct {
	kind   string
	es     []c14Ent
	byPath map[string][]int
	hs     []c14OH
	// coverage
	beyondEOF   bool
	interleaved bool
	lastReader  map[int]int // entry -> handle that read it last
	switches    map[int]int // entry -> number of times the reading handle changed
	listedDirs  int
}

func c14NewView(kind string, es []c14Ent) *c14View {
	v := &c14View{kind: kind, es: es, byPath: map[string][]int{}, lastReader: map[int]int{}, switches: map[int]int{}}
	for i, e := range es {
		cp := c14Clean(e.name)
		v.byPath[cp] = append(v.byPath[cp], i)
	}
	return v
}

// is cp a proper ancestor of some entry without being an entry itself?
func (v *c14View) implicitDir(cp string) bool {
	pre := strings.TrimSuffix(cp, "/") + "/"
	for _, e := range v.es {
		if strings.HasPrefix(c14Clean(e.name), pre) {
			return true
		}
	}
	return false
}

func (v *c14View) infoLine(i int) string {
	e := v.es[i]
	size := len(e.data)
	if e.dir {
		size = 0
	}
	return fmt.Sprintf("info name=%s size=%d dir=%v", corr.HexS(path.Base(c14Clean(e.name))), size, e.dir)
}

const c14RootInfo = "info name=2f size=0 dir=true"

// children of the directory with cleaned path dp: sorted "hexname/kind" and plain names; ok=false when
// two entries with different kinds share a cleaned path (not judged)
func (v *c14View) children(dp string) (infos []string, names []string, ok bool) {
	ok = true
	type ch struct {
		name string
		dir  bool
	}
	var cs []ch
	for cp, idx := range v.byPath {
		if cp == "/" || path.Dir(cp) != dp {
			continue
		}
		for _, i := range idx[1:] {
			if v.es[i].dir != v.es[idx[0]].dir {
				ok = false
			}
		}
		cs = append(cs, ch{path.Base(cp), v.es[idx[0]].dir})
	}
	sort.Slice(cs, func(i, j int) bool {
		ki, kj := cs[i].name+"/f", cs[j].name+"/f"
		if cs[i].dir {
			ki = cs[i].name + "/d"
		}
		if cs[j].dir {
			kj = cs[j].name + "/d"
		}
		return ki < kj
	})
	for _, c := range cs {
		k := "/f"
		if c.dir {
			k = "/d"
		}
		infos = append(infos, corr.HexS(c.name)+k)
	}
	var ns []string
	for _, c := range cs {
		ns = append(ns, c.name)
	}
	sort.Strings(ns)
	for _, n := range ns {
		names = append(names, corr.HexS(n))
	}
	return
}

func c14Subset(got, all []string, want int) bool {
	if len(got) != want {
		return false
	}
	set := map[string]int{}
	for _, a := range all {
		set[a]++
	}
	for _, g := range got {
		if set[g] == 0 {
			return false
		}
		set[g]--
	}
	return true
}

func c14SplitList(s string) []string {
	if s == "" {
		return nil
	}
	return strings.Split(s, ",")
}

// Check judges one script line against the implementation's canonical result. It returns ""
// when the property holds on this line. The expectation is computed from the entry list only.
func (v *c14View) Check(t []string, got string) string {
	if got == "panic" {
		return "panic: the call panics"
	}
	arg := func(i int) string { return string(corr.UnHex(t[i])) }
	lookup := func(p string) (cp string, idx []int) {
		cp = c14Clean(p)
		return cp, v.byPath[cp]
	}
	switch t[0] {
	case "stat":
		cp, idx := lookup(arg(1))
		switch {
		case cp == "/":
			if got != c14RootInfo {
				return fmt.Sprintf("stat: root reported as %q", got)
			}
		case len(idx) == 0:
			if v.implicitDir(cp) {
				return "" // an implicit directory is not an entry: not judged
			}
			if got != "err:notexist" {
				return fmt.Sprintf("stat: no entry has this path, implementation answers %q", got)
			}
		default:
			for _, i := range idx {
				if got == v.infoLine(i) {
					return ""
				}
			}
			return fmt.Sprintf("stat: entry not found or misreported: implementation %q, entry %q", got, v.infoLine(idx[0]))
		}
		return ""
	case "open", "openfile":
		if t[0] == "openfile" && atoi(t[2]) != 0 {
			if strings.HasPrefix(got, "h=") {
				v.hs = append(v.hs, c14OH{ent: -2})
			}
			if got != "err:perm" {
				return fmt.Sprintf("mutator: OpenFile with flag %s answers %q, want a permission error", t[2], got)
			}
			return ""
		}
		cp, idx := lookup(arg(1))
		opened := strings.HasPrefix(got, "h=")
		ent := -2
		var what string
		switch {
		case cp == "/":
			ent = -1
			if !opened {
				what = fmt.Sprintf("open: the root cannot be opened: %q", got)
			}
		case len(idx) == 0:
			if !v.implicitDir(cp) && got != "err:notexist" {
				what = fmt.Sprintf("open: no entry has this path, implementation answers %q", got)
			}
		case len(idx) == 1:
			ent = idx[0]
			if !opened {
				what = fmt.Sprintf("open: entry %q not found: %q", v.es[idx[0]].name, got)
			}
		default:
			if !opened {
				what = fmt.Sprintf("open: entry %q not found: %q", v.es[idx[0]].name, got)
			}
		}
		if opened {
			if want := fmt.Sprintf("h=%d", len(v.hs)); got != want {
				what = "open: handle numbering out of step"
			}
			v.hs = append(v.hs, c14OH{ent: ent})
		}
		return what
	case "create", "mkdir", "mkdirall", "remove", "removeall", "rename", "chmod", "chown", "chtimes":
		if got != "err:perm" {
			return fmt.Sprintf("mutator: %s answers %q, want a permission error", t[0], got)
		}
		return ""
	}
	if !strings.HasPrefix(t[0], "h.") {
		return ""
	}
	hi := atoi(t[1])
	if hi >= len(v.hs) {
		return ""
	}
	h := &v.hs[hi]
	switch t[0] {
	case "h.write", "h.writeat", "h.writestring":
		if got != "n=0 err:perm" {
			return fmt.Sprintf("mutator: %s answers %q, want 0 bytes and a permission error", t[0], got)
		}
		return ""
	case "h.trunc":
		if got != "err:perm" {
			return fmt.Sprintf("mutator: %s answers %q, want a permission error", t[0], got)
		}
		return ""
	case "h.sync":
		return ""
	case "h.close":
		if !h.closed && got != "ok" {
			return fmt.Sprintf("close: %q", got)
		}
		h.closed = true
		return ""
	}
	if h.ent == -2 {
		return ""
	}
	isDir := h.ent == -1 || v.es[h.ent].dir
	var data []byte
	if h.ent >= 0 && !isDir {
		data = v.es[h.ent].data
	}
	size := int64(len(data))
	noteRead := func() {
		h.reads++
		if last, ok := v.lastReader[h.ent]; ok && last != hi {
			v.switches[h.ent]++
			if v.switches[h.ent] >= 2 {
				v.interleaved = true
			}
		}
		v.lastReader[h.ent] = hi
	}
	switch t[0] {
	case "h.read", "h.readat":
		n := int64(atoi(t[2]))
		if isDir { // any error (EISDIR, or closed once closed)
			if !strings.HasPrefix(got, "bytes=- err:") || got == "bytes=- err:-" {
				return fmt.Sprintf("read: directory handle answers %q", got)
			}
			return ""
		}
		if h.closed {
			if got != "bytes=- err:closed" {
				return fmt.Sprintf("read: closed handle answers %q", got)
			}
			return ""
		}
		off := h.pos
		if t[0] == "h.readat" {
			off = atoi64(t[3])
			if off < 0 {
				return "" // undefined for io.ReaderAt
			}
		}
		var want []byte
		if off < size {
			end := off + n
			if end > size {
				end = size
			}
			want = data[off:end]
		}
		if off > size || off+n > size {
			v.beyondEOF = true
		}
		noteRead()
		f := strings.Fields(got)
		if len(f) != 2 || !strings.HasPrefix(f[0], "bytes=") || !strings.HasPrefix(f[1], "err:") {
			return fmt.Sprintf("read: malformed result %q", got)
		}
		if f[0] != "bytes="+c14Bytes(want) {
			return fmt.Sprintf("bytes: %s(%s) at offset %d of a %d-byte entry returns %s, the entry has %s there", t[0], t[2], off, size, f[0][6:], c14Bytes(want))
		}
		e := f[1][4:]
		if e != "-" && e != "eof" {
			return fmt.Sprintf("read-error: unexpected error class %q", e)
		}
		if e == "eof" && off+n < size {
			return fmt.Sprintf("read-error: EOF reported for a read that ends before the end (offset %d, %d bytes, size %d)", off, n, size)
		}
		if e == "-" {
			if t[0] == "h.readat" && int64(len(want)) < n {
				return fmt.Sprintf("read-error: short ReadAt (%d of %d bytes) without an error", len(want), n)
			}
			if t[0] == "h.read" && n > 0 && len(want) == 0 {
				return "read-error: Read returns 0 bytes and no error at the end of the entry"
			}
		}
		if t[0] == "h.read" {
			h.pos += int64(len(want))
		}
		return ""
	case "h.seek":
		off, wh := atoi64(t[2]), atoi(t[3])
		if isDir {
			if !strings.HasPrefix(got, "err:") {
				return fmt.Sprintf("seek: directory handle answers %q", got)
			}
			return ""
		}
		if h.closed {
			if got != "err:closed" {
				return fmt.Sprintf("seek: closed handle answers %q", got)
			}
			return ""
		}
		var tgt int64
		switch wh {
		case 0:
			tgt = off
		case 1:
			tgt = h.pos + off
		case 2:
			tgt = size + off
		default:
			if !strings.HasPrefix(got, "err:") {
				return fmt.Sprintf("seek: invalid whence %d answers %q", wh, got)
			}
			return ""
		}
		if tgt > size {
			v.beyondEOF = true
		}
		if strings.HasPrefix(got, "pos=") {
			if got != fmt.Sprintf("pos=%d", tgt) || tgt < 0 {
				return fmt.Sprintf("seek: position %q, want %d", got, tgt)
			}
			h.pos = tgt
			return ""
		}
		if tgt >= 0 && tgt <= size {
			return fmt.Sprintf("seek: valid position %d of a %d-byte entry refused: %q", tgt, size, got)
		}
		return ""
	}
	if h.closed {
		return "" // Stat/Name/Readdir after Close: outside the property
	}
	switch t[0] {
	case "h.stat":
		want := c14RootInfo
		if h.ent >= 0 {
			want = v.infoLine(h.ent)
		}
		if got != want {
			return fmt.Sprintf("stat: handle reports %q, entry is %q", got, want)
		}
	case "h.name":
		want := "/"
		if h.ent >= 0 {
			want = c14Clean(v.es[h.ent].name)
		}
		if got != "str="+corr.HexS(want) {
			return fmt.Sprintf("name: handle name %q, want %q", got, want)
		}
	case "h.readdir", "h.readdirnames":
		if !isDir {
			if !strings.HasPrefix(got, "err:") {
				return fmt.Sprintf("listing: file handle lists %q", got)
			}
			return ""
		}
		dp := "/"
		if h.ent >= 0 {
			dp = c14Clean(v.es[h.ent].name)
		}
		infos, names, ok := v.children(dp)
		if !ok {
			return ""
		}
		v.listedDirs++
		all, pfx := infos, "infos="
		if t[0] == "h.readdirnames" {
			all, pfx = names, "names="
		}
		cnt := atoi(t[2])
		want := len(all)
		if cnt > 0 && cnt < want {
			want = cnt
		}
		switch {
		case strings.HasPrefix(got, "count="):
			if got != fmt.Sprintf("count=%d", want) {
				return fmt.Sprintf("listing: %s of %q returns %s entries, want %d", t[0], dp, got[6:], want)
			}
		case strings.HasPrefix(got, pfx):
			g := c14SplitList(got[len(pfx):])
			if cnt <= 0 {
				if strings.Join(g, ",") != strings.Join(all, ",") {
					return fmt.Sprintf("listing: %s of %q returns [%s], the archive stores [%s] there", t[0], dp, strings.Join(g, ","), strings.Join(all, ","))
				}
			} else if !c14Subset(g, all, want) {
				return fmt.Sprintf("listing: %s(%d) of %q returns [%s], want %d of [%s]", t[0], cnt, dp, strings.Join(g, ","), want, strings.Join(all, ","))
			}
		default:
			return fmt.Sprintf("listing: %s of directory %q fails: %q (the archive stores %d entries there)", t[0], dp, got, len(all))
		}
	}
	return ""
}

func c14Walk(c corr.Case, impl []string, stopAtFailure bool) (*c14View, string, int) {
	var v *c14View
	for i, line := range c.Lines {
		t := strings.Fields(line)
		if len(t) == 0 {
			continue
		}
		if i >= len(impl) {
			return v, "implementation produced no result", i
		}
		if t[0] == "case" || t[0] == "ocase" {
			if impl[i] != "case" {
				return v, "setup: " + impl[i], i
			}
			v = c14NewView(t[1], c14ParseEntries(t[2]))
			continue
		}
		if v == nil {
			continue
		}
		if t[0] == "concwalk" || t[0] == "seekcopy" {
			if strings.HasPrefix(impl[i], "fail") && stopAtFailure {
				return v, impl[i], i
			}
			continue
		}
		if what := v.Check(t, impl[i]); what != "" && stopAtFailure {
			return v, what, i
		}
	}
	return v, "", -1
}

// c14ConcWalk: simultaneous handles in the literal sense. Eight goroutines, each with handles of its own, walk a
// freshly opened archive at the same time (stat, list and read everything); each must see what one goroutine
// alone sees. (An archive filesystem is read-only: nothing in it may be written on first use.)
func c14ConcWalk(kind string, ents []c14Ent) string {
	describe := func(fs afero.Fs) string {
		var sb strings.Builder
		var rec func(dir string, depth int)
		rec = func(dir string, depth int) {
			f, err := fs.Open(dir)
			if err != nil {
				fmt.Fprintf(&sb, "%s open:%s;", dir, c14Err(err))
				return
			}
			names, _ := f.Readdirnames(-1)
			f.Close()
			sort.Strings(names)
			fmt.Fprintf(&sb, "%s [%s];", dir, strings.Join(names, ","))
			for _, n := range names {
				p := filepath.Join(dir, n)
				fi, err := fs.Stat(p)
				if err != nil {
					fmt.Fprintf(&sb, "%s stat:%s;", p, c14Err(err))
					continue
				}
				if fi.IsDir() {
					if depth < 8 {
						rec(p, depth+1)
					}
					continue
				}
				b, err := afero.ReadFile(fs, p)
				fmt.Fprintf(&sb, "%s %d %x err=%v;", p, fi.Size(), crc32.ChecksumIEEE(b), err != nil)
			}
		}
		rec("/", 0)
		return sb.String()
	}
	ref, err := c14Build(kind, ents)
	if err != nil {
		return "setup-failed:" + err.Error()
	}
	want := describe(ref)
	for round := 0; round < 400; round++ {
		shared, err := c14Build(kind, ents)
		if err != nil {
			return "setup-failed:" + err.Error()
		}
		got := make([]string, 16)
		var wg sync.WaitGroup
		start := make(chan struct{})
		for g := range got {
			wg.Add(1)
			go func(g int) {
				defer wg.Done()
				defer func() {
					if r := recover(); r != nil {
						got[g] = fmt.Sprint("panic: ", r)
					}
				}()
				<-start
				got[g] = describe(shared)
			}(g)
		}
		close(start)
		wg.Wait()
		for g := range got {
			if got[g] != want {
				return fmt.Sprintf("fail: goroutine %d of 16 walking the archive at the same time sees %q, one goroutine alone sees %q", g, got[g], want)
			}
		}
	}
	return "ok"
}

// c14SeekCopy: io.Copy out of a handle (io.WriterTo if the handle has it, Read until io.EOF otherwise) after a Seek
// delivers the entry's bytes from that position to the end, and leaves the handle at the end.
func c14SeekCopy(fs afero.Fs, ents []c14Ent, name string, off int64) string {
	var want []byte
	found := false
	for _, e := range ents {
		if !e.dir && filepath.Clean("/"+e.name) == filepath.Clean("/"+name) {
			want, found = e.data, true
		}
	}
	if !found {
		return "skipped: no such entry"
	}
	f, err := fs.Open(name)
	if err != nil {
		return "fail: open: " + err.Error()
	}
	defer f.Close()
	if off > 0 {
		f.Read(make([]byte, 3)) // something has been read (and buffered) before
	}
	if _, err := f.Seek(off, io.SeekStart); err != nil {
		return "fail: seek: " + err.Error()
	}
	var buf bytes.Buffer
	_, err = io.Copy(plainWriter{&buf}, f)
	tail := []byte{}
	if off < int64(len(want)) {
		tail = want[off:]
	}
	if err != nil || !bytes.Equal(buf.Bytes(), tail) {
		return fmt.Sprintf("fail: Seek(%d) then io.Copy out of %s delivers %d bytes (err %v), the entry has %d bytes from there", off, name, buf.Len(), err, len(tail))
	}
	pos, err := f.Seek(0, io.SeekCurrent)
	n, _ := f.Read(make([]byte, 4))
	if err != nil || (off <= int64(len(want)) && pos != int64(len(want))) || n != 0 {
		return fmt.Sprintf("fail: after the copy the handle stands at %d (err %v) and reads %d more bytes; the entry has %d bytes", pos, err, n, len(want))
	}
	return "ok"
}

func c14Oracle(c corr.Case, impl []string) (string, int) {
	_, what, line := c14Walk(c, impl, true)
	return what, line
}

func c14NonTrivial(c corr.Case, impl []string) bool {
	v, _, _ := c14Walk(c, impl, false)
	return v != nil && (v.interleaved || v.beyondEOF)
}

func c14Classify(c corr.Case, impl []string, hist map[string]int) {
	for i, line := range c.Lines {
		t := strings.Fields(line)
		op := t[0]
		if op == "case" || op == "ocase" {
			op = "case:" + t[1]
		}
		hist["op:"+op]++
		if i < len(impl) {
			if k := strings.Index(impl[i], "err:"); k >= 0 {
				hist["err:"+impl[i][k+4:]]++
			}
			if impl[i] == "panic" {
				hist["panic"]++
			}
		}
	}
	v, _, _ := c14Walk(c, impl, false)
	if v == nil {
		return
	}
	if v.interleaved {
		hist["branch:interleaved-handles"]++
	}
	if v.beyondEOF {
		hist["branch:beyond-eof"]++
	}
	if v.listedDirs > 0 {
		hist["branch:listing"]++
	}
	big := false
	for _, e := range v.es {
		if len(e.data) >= 32*1024 {
			big = true
		}
	}
	if big {
		hist["branch:entry>=32KiB"]++
	}
	hist[fmt.Sprintf("entries:%s", c14Bucket(len(v.es)))]++
}

func c14Bucket(n int) string {
	switch {
	case n == 0:
		return "0"
	case n <= 3:
		return "1-3"
	case n <= 10:
		return "4-10"
	}
	return "11-40"
}

func c14Signature(c corr.Case, impl []string, what string, line int) string {
	kind := "?"
	if len(c.Lines) > 0 {
		if t := strings.Fields(c.Lines[0]); len(t) > 1 {
			kind = strings.SplitN(t[1], "-", 2)[0]
		}
	}
	op := "?"
	if line >= 0 && line < len(c.Lines) {
		op = strings.Fields(c.Lines[line])[0]
	}
	return "C14:" + kind + ":" + op + ":" + strings.SplitN(what, ":", 2)[0]
}

func c14CompareLine(impl, model string) bool { return model == "unmodelled" }

// ---- generators ----

var c14Kinds = []string{"zip-store", "zip-deflate", "tar"}

func c14Seq(n int) []byte {
	b := make([]byte, n)
	for i := range b {
		b[i] = byte(0x11 * (i + 1))
	}
	return b
}

func c14Case(kind string, es []c14Ent, lines ...string) corr.Case {
	return corr.Case{Lines: append([]string{c14Header(kind, es)}, lines...)}
}

func hp(p string) string { return corr.HexS(p) }

func c14Corpus() []corr.Case {
	file := func(n, d string) c14Ent { return c14Ent{name: n, data: []byte(d)} }
	dir := func(n string) c14Ent { return c14Ent{name: n, dir: true} }
	base := []c14Ent{file("a.txt", "hello"), dir("d/"), file("sub/x", "xyz")}
	var cs []corr.Case
	// names that contain ".." without being the parent element
	for _, k := range []string{"zip-store", "zip-deflate", "tar"} {
		dots := []c14Ent{file("notes..old.txt", "n"), dir("rel/v1..v2/"), file("rel/v1..v2/changes.diff", "diff"), file("..hidden", "h"), file("a/../b.txt", "b")}
		cs = append(cs, c14Case(k, dots, "stat "+hp("notes..old.txt"), "open "+hp("rel/v1..v2/changes.diff"), "h.read 0 9", "stat "+hp("..hidden"), "stat "+hp("b.txt"),
			"open "+hp("/"), "h.readdirnames 1 -1", "open "+hp("rel"), "h.readdirnames 2 -1", "open "+hp("rel/v1..v2"), "h.readdirnames 3 -1"))
	}
	// zip directories written without the trailing slash (marked by their mode bits only), explicit and empty
	for _, k := range []string{"zip-store", "zip-deflate"} {
		noslash := []c14Ent{file("a.txt", "hello"), dir("d"), file("d/x", "xyz"), dir("e"), dir("sub/deep"), file("sub/deep/y", "yy")}
		cs = append(cs, c14Case(k, noslash, "stat "+hp("d"), "open "+hp("d"), "h.readdirnames 0 -1", "h.read 0 4", "stat "+hp("e"), "open "+hp("e"), "h.readdir 1 -1", "h.readdirnames 1 0",
			"open "+hp("sub/deep"), "h.readdirnames 2 -1", "open "+hp("/"), "h.readdirnames 3 -1", "stat "+hp("sub")))
	}
	// an archive of a directory itself, as `tar -cf x.tar .` writes it: an entry for "./" and every name below it with that prefix
	{
		dotted := []c14Ent{dir("./"), file("./main.go", "package main"), dir("./docs/"), file("./docs/x.md", "x"), file("./docs/deep/y", "yy")}
		cc := c14Case("tar", dotted, "open "+hp("/"), "h.readdirnames 0 -1", "open "+hp("/"), "h.readdir 1 1", "h.readdir 1 1", "h.readdir 1 -1", "stat "+hp("/"), "stat "+hp("main.go"),
			"open "+hp("docs"), "h.readdirnames 2 -1", "stat "+hp("."), "open "+hp("docs/deep/y"), "h.read 3 8")
		cc.Lines[0] = "o" + cc.Lines[0]
		cs = append(cs, cc)
	}
	// io.Copy out of a handle after a Seek
	for _, k := range c14Kinds {
		bigd := c14GenData(9, 20000)
		ents := []c14Ent{file("a.txt", "hello world"), {name: "d/big.bin", data: bigd}, file("d/empty", "")}
		cc := c14Case(k, ents, "seekcopy "+hp("a.txt")+" 0", "seekcopy "+hp("a.txt")+" 4", "seekcopy "+hp("d/big.bin")+" 5000", "seekcopy "+hp("d/big.bin")+" 19999", "seekcopy "+hp("d/big.bin")+" 20000",
			"seekcopy "+hp("d/empty")+" 0", "seekcopy "+hp("d/big.bin")+" 0")
		cc.Lines[0] = "o" + cc.Lines[0]
		cs = append(cs, cc)
	}
	// simultaneous handles in different goroutines on a fresh archive
	for _, k := range c14Kinds {
		wide := []c14Ent{file("a.txt", "hello"), dir("d/"), file("sub/x", "xyz"), file("sub/deep/er/y", "yy"), file("d/one", "1"), file("d/two", "22"), file("e/f/g", "ggg"), dir("empty/")}
		cc := c14Case(k, wide, "concwalk", "stat "+hp("sub/x"))
		cc.Lines[0] = "o" + cc.Lines[0]
		cs = append(cs, cc)
	}
	// S7: a second open of a tar entry reads from the first handle's position
	cs = append(cs, c14Case("tar", base, "open "+hp("a.txt"), "h.read 0 5", "h.read 0 1", "open "+hp("a.txt"), "h.read 1 5",
		"open "+hp("/a.txt"), "h.read 2 2", "h.read 1 1", "h.seek 0 1 0", "h.read 2 3", "h.read 0 4"))
	// S8: zipfs ReadAt beyond the end
	for _, k := range []string{"zip-store", "zip-deflate"} {
		cs = append(cs, c14Case(k, base, "open "+hp("a.txt"), "h.readat 0 2 5", "h.readat 0 2 6", "h.readat 0 0 7", "h.readat 0 3 1099511627776", "h.read 0 5"))
	}
	// S9: tarfs explicit empty directory
	cs = append(cs, c14Case("tar", base, "stat "+hp("d"), "open "+hp("d"), "h.readdir 0 -1", "h.readdirnames 0 0"))
	cs = append(cs, c14Case("tar", []c14Ent{dir("d")}, "open "+hp("/d/"), "h.readdir 0 -1"))
	// S22: zipfs root of an archive without top-level entries, and of an empty archive
	cs = append(cs, c14Case("zip-store", []c14Ent{file("sub/x", "xyz")}, "open "+hp("/"), "h.readdir 0 -1", "h.readdirnames 0 -1", "stat "+hp("sub/x")))
	for _, k := range c14Kinds {
		cs = append(cs, c14Case(k, nil, "stat "+hp("/"), "open "+hp(""), "h.readdir 0 -1", "h.readdirnames 0 0", "h.stat 0", "h.name 0", "stat "+hp("a")))
	}
	// spellings, nesting, explicit and implicit directories, listings
	deep := []c14Ent{dir("./p/"), file("./p/q/r/s.bin", "0123456789"), dir("p/q/"), file("p/e", ""), file("/top", "T"), dir("p/q/r/")}
	for _, k := range c14Kinds {
		cs = append(cs, c14Case(k, deep, "stat "+hp("p"), "stat "+hp("/p/q/r/s.bin"), "stat "+hp("p//q/./r/../r"), "stat "+hp("p/e"), "stat "+hp("top"),
			"open "+hp("p"), "h.readdir 0 -1", "h.readdir 0 1", "h.readdirnames 0 0", "h.name 0", "h.stat 0", "h.read 0 1", "h.seek 0 0 0",
			"open "+hp("p/q/r"), "h.readdir 1 0", "open "+hp("/"), "h.readdir 2 -1", "h.readdir 2 1", "h.readdir 2 5",
			"open "+hp("p/q/r/s.bin"), "h.readdir 3 -1", "h.name 3", "h.stat 3", "h.readat 3 4 8", "h.seek 3 -3 2", "h.read 3 8", "h.read 3 1",
			"open "+hp("p/e"), "h.read 4 1", "h.read 4 0", "h.readat 4 0 0", "h.readat 4 1 0", "stat "+hp("nope"), "open "+hp("p/nope")))
	}
	// duplicates: zipfs keeps the first, tarfs the last
	dup := []c14Ent{file("a", "first"), file("./a", "second!")}
	for _, k := range c14Kinds {
		c := c14Case(k, dup, "stat "+hp("a"), "open "+hp("a"), "h.readat 0 16 0")
		c.Lines[0] = "o" + c.Lines[0] // which one wins is not part of the property: oracle only
		cs = append(cs, c)
	}
	// mutators at both levels, then the view again
	for _, k := range c14Kinds {
		cs = append(cs, c14Case(k, base, "open "+hp("a.txt"), "h.read 0 2", "h.write 0 5a5a", "h.writeat 0 5a 0", "h.writestring 0 5a", "h.trunc 0 0",
			"create "+hp("a.txt"), "create "+hp("new"), "mkdir "+hp("m"), "mkdirall "+hp("m/n"), "remove "+hp("a.txt"), "removeall "+hp("/"),
			"rename "+hp("a.txt")+" "+hp("b.txt"), "chmod "+hp("a.txt"), "chown "+hp("a.txt"), "chtimes "+hp("a.txt"),
			"openfile "+hp("a.txt")+" 1", "openfile "+hp("a.txt")+" 66", "openfile "+hp("a.txt")+" 0", "h.read 1 9", "h.read 0 9", "h.close 0", "h.read 0 1", "h.readat 0 1 0", "h.seek 0 0 0",
			"stat "+hp("a.txt"), "stat "+hp("new"), "stat "+hp("m"), "stat "+hp("b.txt"), "open "+hp("/"), "h.readdir 2 -1"))
	}
	// a large deflated entry read in odd chunks through two handles
	bigE := []c14Ent{{name: "big.bin", spec: "g7x70000", data: c14GenData(7, 70000)}}
	for _, k := range c14Kinds {
		cs = append(cs, c14Case(k, bigE, "open "+hp("big.bin"), "open "+hp("big.bin"), "h.read 0 32769", "h.readat 1 100 69950", "h.read 1 33", "h.read 0 40000", "h.read 0 1",
			"h.seek 1 -1 2", "h.read 1 2", "h.readat 0 70000 0", "h.readat 0 70001 0", "h.readat 1 5 70001", "stat "+hp("big.bin")))
	}
	// oracle-only: a 2 MiB entry (the Lean driver answers `unmodelled`)
	huge := []c14Ent{{name: "huge.bin", spec: "g9x2097152", data: c14GenData(9, 2097152)}, {name: "small", data: []byte("s")}}
	for _, k := range []string{"zip-deflate", "tar"} {
		c := c14Case(k, huge, "open "+hp("huge.bin"), "open "+hp("huge.bin"), "open "+hp("small"), "h.read 0 1048577", "h.readat 1 4096 2097000", "h.read 2 2",
			"h.read 0 1048577", "h.read 0 1", "h.seek 1 -5 2", "h.read 1 9", "h.readat 0 2097152 0", "h.readat 1 1 4194304", "stat "+hp("huge.bin"))
		c.Lines[0] = "o" + c.Lines[0]
		cs = append(cs, c)
	}
	return cs
}

// complete small tables
func c14Exhaustive(tier string) []corr.Case {
	var cs []corr.Case
	maxSize := 4
	if tier == "thorough" {
		maxSize = 6
	}
	far := []int64{1 << 20, 1 << 40, 1<<62 - 1}
	for _, kind := range c14Kinds {
		// (a) every (size, prefill, length, offset) for ReadAt and for Seek+Read, with a second handle watching
		for size := 0; size <= maxSize; size++ {
			es := []c14Ent{{name: "f", data: c14Seq(size)}, {name: "g", data: []byte("other")}}
			for _, pre := range []int{0, 1, size, size + 1} {
				prefix := []string{"open " + hp("f"), "open " + hp("f")}
				if pre > 0 {
					prefix = append(prefix, fmt.Sprintf("h.read 0 %d", pre))
				}
				tail := []string{"h.seek 0 0 1", fmt.Sprintf("h.readat 0 %d 0", size+1), "h.read 1 1", "h.seek 1 0 1"}
				offs := []int64{}
				for o := 0; o <= size+3; o++ {
					offs = append(offs, int64(o))
				}
				offs = append(offs, far...)
				for n := 0; n <= size+2; n++ {
					for _, off := range offs {
						l := append(append([]string{}, prefix...), fmt.Sprintf("h.readat 0 %d %d", n, off))
						cs = append(cs, c14Case(kind, es, append(l, tail...)...))
						l = append(append([]string{}, prefix...), fmt.Sprintf("h.seek 0 %d 0", off), fmt.Sprintf("h.read 0 %d", n))
						cs = append(cs, c14Case(kind, es, append(l, tail...)...))
					}
				}
				// (b) every whence and relative offset from this position
				for wh := 0; wh <= 3; wh++ {
					for off := -size - 2; off <= size+2; off++ {
						l := append(append([]string{}, prefix...), fmt.Sprintf("h.seek 0 %d %d", off, wh), "h.read 0 2")
						cs = append(cs, c14Case(kind, es, append(l, tail...)...))
					}
				}
			}
		}
		// (c) every program of 3 calls over two handles on one entry (and a third opened in the middle)
		es := []c14Ent{{name: "f", data: []byte("abcdef")}}
		alpha := []string{"h.read 0 2", "h.read 1 3", "h.readat 0 2 1", "h.readat 1 9 4", "h.seek 0 1 1", "h.seek 1 -2 2", "open " + hp("f"), "h.read 2 4", "h.close 0"}
		for _, a := range alpha {
			for _, b := range alpha {
				for _, c := range alpha {
					cs = append(cs, c14Case(kind, es, "open "+hp("f"), "open "+hp("./f"), a, b, c, "h.read 0 9", "h.read 1 9", "h.read 2 9"))
				}
			}
		}
		// (d) every subset of a small universe of entries: stat / open / list everything
		type u struct {
			name string
			dir  bool
			data string
		}
		uni := []u{{"a", false, "A"}, {"d/", true, ""}, {"d/x", false, "xx"}, {"e/f/g", false, "ggg"}, {"./b", false, ""}, {"d/sub/", true, ""}}
		if kind == "tar" {
			uni[5].name = "d/sub" // tar directory headers need no trailing separator
		}
		probe := []string{"/", "a", "b", "d", "d/x", "d/sub", "e", "e/f", "e/f/g", "zz", "d/zz", "", ".", "./a", "/d//x", "d/./x/", "e/../d/sub/", "/e/f/../f/g"}
		for mask := 0; mask < 1<<len(uni); mask++ {
			var es []c14Ent
			for i, x := range uni {
				if mask&(1<<i) != 0 {
					es = append(es, c14Ent{name: x.name, dir: x.dir, data: []byte(x.data)})
				}
			}
			var l []string
			for _, p := range probe {
				l = append(l, "stat "+hp(p))
			}
			h := 0
			for _, p := range []string{"/", "d", "d/sub", "a", "e/f/g"} {
				cp := c14Clean(p)
				present := cp == "/"
				for _, e := range es {
					if c14Clean(e.name) == cp {
						present = true
					}
				}
				l = append(l, "open "+hp(p))
				if !present {
					continue
				}
				l = append(l, fmt.Sprintf("h.readdir %d -1", h), fmt.Sprintf("h.readdir %d 0", h), fmt.Sprintf("h.readdir %d 1", h), fmt.Sprintf("h.readdir %d 2", h),
					fmt.Sprintf("h.readdirnames %d -1", h), fmt.Sprintf("h.readdirnames %d 1", h), fmt.Sprintf("h.name %d", h), fmt.Sprintf("h.stat %d", h), fmt.Sprintf("h.readat %d 4 0", h))
				h++
			}
			cs = append(cs, c14Case(kind, es, l...))
		}
		// (e) every mutator on every kind of name and handle, followed by the view
		ents := []c14Ent{{name: "a", data: []byte("A")}, {name: "d/", dir: true}, {name: "d/x", data: []byte("xx")}}
		view := []string{"stat " + hp("a"), "stat " + hp("d"), "stat " + hp("d/x"), "stat " + hp("n"), "open " + hp("/"), "h.readdir 3 -1", "h.readat 0 4 0", "h.readdir 1 -1"}
		setup := []string{"open " + hp("a"), "open " + hp("d"), "open " + hp("d/x"), "h.close 2"}
		for _, m := range []string{"create", "mkdir", "mkdirall", "remove", "removeall", "chmod", "chown", "chtimes"} {
			for _, p := range []string{"a", "d", "d/x", "n", "/", "d/n"} {
				cs = append(cs, c14Case(kind, ents, append(append(append([]string{}, setup...), m+" "+hp(p)), view...)...))
			}
		}
		for _, p := range []string{"a", "d", "n"} {
			for _, q := range []string{"a", "d/x", "n2", "d/n"} {
				cs = append(cs, c14Case(kind, ents, append(append(append([]string{}, setup...), "rename "+hp(p)+" "+hp(q)), view...)...))
			}
		}
		for hI := 0; hI <= 2; hI++ {
			for _, m := range []string{"h.write %d 7a", "h.write %d -", "h.writeat %d 7a 0", "h.writeat %d 7a 9", "h.writestring %d 7a", "h.trunc %d 0", "h.trunc %d 5", "h.sync %d"} {
				cs = append(cs, c14Case(kind, ents, append(append(append([]string{}, setup...), fmt.Sprintf(m, hI)), view...)...))
			}
		}
		// (f) OpenFile flags: only O_RDONLY opens
		flags := []int{0, os.O_WRONLY, os.O_RDWR, os.O_APPEND, os.O_CREATE, os.O_EXCL, os.O_SYNC, os.O_TRUNC, os.O_RDWR | os.O_CREATE | os.O_TRUNC,
			os.O_WRONLY | os.O_APPEND, os.O_CREATE | os.O_EXCL, -1, 1 << 20, 3}
		for _, f := range flags {
			for _, p := range []string{"a", "d", "n", "/"} {
				cs = append(cs, c14Case(kind, ents, append(append([]string{}, setup...), append([]string{fmt.Sprintf("openfile %s %d", hp(p), f), "h.readat 3 4 0"}, view[:4]...)...)...))
			}
		}
	}
	return cs
}

// ("v1..v2", "..x", "n..": ordinary names that merely contain two dots)
var c14Segs = []string{"a", "b", "c", "dir", "x.txt", "y", "v1..v2", "..x", "n.."}

func c14RandName(r *corr.Rand, depth int) string {
	n := 1 + r.Intn(depth)
	var s []string
	for i := 0; i < n; i++ {
		s = append(s, corr.Pick(r, c14Segs))
	}
	return strings.Join(s, "/")
}

func c14RandSize(r *corr.Rand, tier string) int {
	small := []int{0, 0, 1, 2, 3, 5, 8, 31, 32, 33, 100}
	mid := []int{511, 512, 513, 4095, 4096, 4097, 10000}
	large := []int{32767, 32768, 32769, 65536, 70001}
	switch k := r.Intn(100); {
	case k < 70:
		return corr.Pick(r, small)
	case k < 90:
		return corr.Pick(r, mid)
	case k < 99 || tier != "thorough":
		return corr.Pick(r, large)
	}
	return corr.Pick(r, []int{262144 + 17, 1 << 20})
}

func c14RandArchive(r *corr.Rand, kind, tier string) []c14Ent {
	n := 0
	switch k := r.Intn(100); {
	case k < 5:
		n = 0
	case k < 60:
		n = 1 + r.Intn(5)
	case k < 90:
		n = 6 + r.Intn(10)
	default:
		n = 16 + r.Intn(25)
	}
	var es []c14Ent
	used := map[string]bool{}
	bigLeft := 2
	for len(es) < n {
		name := c14RandName(r, 4)
		cp := c14Clean(name)
		isDir := r.Chance(25)
		// a file must not be the parent of another entry's path in a sane archive; keep it simple:
		// names may collide (5 %: exercises first-wins / last-wins), otherwise they are unique
		if used[cp] && !r.Chance(5) {
			if len(used) >= 150 {
				break
			}
			continue
		}
		used[cp] = true
		switch r.Intn(10) {
		case 0:
			name = "./" + name
		case 1:
			name = "/" + name
		}
		if isDir {
			if kind != "tar" || r.Bool() {
				name += "/"
			}
			es = append(es, c14Ent{name: name, dir: true})
			continue
		}
		size := c14RandSize(r, tier)
		if size > 20000 {
			if bigLeft == 0 {
				size = 100
			} else {
				bigLeft--
			}
		}
		e := c14Ent{name: name}
		if size > 40 {
			seed := r.Intn(256)
			e.spec, e.data = fmt.Sprintf("g%dx%d", seed, size), c14GenData(seed, size)
		} else {
			e.data = payload(r, size)
		}
		es = append(es, e)
	}
	return es
}

func c14Off(r *corr.Rand, L int64) int64 {
	c := []int64{0, 1, L - 1, L, L + 1, 2 * L, L / 2, L + 3, 1 << 20, 1 << 40}
	if r.Chance(20) && L > 0 {
		return int64(r.Intn(int(L) + 1))
	}
	o := corr.Pick(r, c)
	if o < 0 {
		o = 0
	}
	return o
}

func c14Len(r *corr.Rand, L int64) int {
	c := []int64{0, 1, 2, 7, L, L + 1, L - 1, L / 2, 33, 4096}
	n := corr.Pick(r, c)
	if n < 0 {
		n = 0
	}
	return int(n)
}

func c14Random(r *corr.Rand, tier string) []corr.Case {
	n := 2400
	if tier == "thorough" {
		n = 40000
	}
	cases := make([]corr.Case, 0, n)
	for i := 0; i < n; i++ {
		rr := r.Fork()
		kind := c14Kinds[i%3]
		es := c14RandArchive(rr, kind, tier)
		var lines []string
		// the paths a program talks about: entries (various spellings), the root, parents, misses
		var paths []string
		for _, e := range es {
			paths = append(paths, e.name, c14Clean(e.name), strings.TrimPrefix(c14Clean(e.name), "/"), path.Dir(c14Clean(e.name)))
		}
		paths = append(paths, "/", "", ".", "nope", "a/nope", "a//b/../b")
		type hrec struct {
			size   int64
			dir    bool
			closed bool
		}
		var hs []hrec
		size := func(p string) (int64, bool, bool) { // size, isDir, present (first match; exact for unique paths)
			cp := c14Clean(p)
			if cp == "/" {
				return 0, true, true
			}
			for _, e := range es {
				if c14Clean(e.name) == cp {
					return int64(len(e.data)), e.dir, true
				}
			}
			return 0, false, false
		}
		// open 1-3 handles on each of 1-3 chosen entries up front (files preferred)
		var files []string
		for _, e := range es {
			if !e.dir {
				files = append(files, e.name)
			}
		}
		nTargets := 1 + rr.Intn(3)
		for k := 0; k < nTargets; k++ {
			p := corr.Pick(rr, paths)
			if len(files) > 0 && rr.Chance(80) {
				p = corr.Pick(rr, files)
			}
			sz, d, ok := size(p)
			for j := 1 + rr.Intn(3); j > 0; j-- {
				lines = append(lines, "open "+hp(p))
				if ok {
					hs = append(hs, hrec{size: sz, dir: d})
				}
			}
		}
		steps := 6 + rr.Intn(35)
		for s := 0; s < steps; s++ {
			k := rr.Intn(100)
			if len(hs) == 0 && k < 80 {
				k = 80 + rr.Intn(20)
			}
			var l string
			switch {
			case k < 30:
				h := rr.Intn(len(hs))
				l = fmt.Sprintf("h.read %d %d", h, c14Len(rr, hs[h].size))
			case k < 55:
				h := rr.Intn(len(hs))
				l = fmt.Sprintf("h.readat %d %d %d", h, c14Len(rr, hs[h].size), c14Off(rr, hs[h].size))
			case k < 70:
				h := rr.Intn(len(hs))
				wh := rr.Intn(3)
				off := c14Off(rr, hs[h].size)
				if wh != 0 || rr.Chance(10) {
					off = off%(2*hs[h].size+3) - hs[h].size - 1
				}
				if rr.Chance(3) {
					wh = 3 + rr.Intn(3)
				}
				l = fmt.Sprintf("h.seek %d %d %d", h, off, wh)
			case k < 74:
				h := rr.Intn(len(hs))
				if hs[h].dir {
					l = fmt.Sprintf("h.readdir %d %d", h, rr.Intn(5)-1)
				} else {
					l = fmt.Sprintf("h.stat %d", h)
				}
			case k < 77:
				h := rr.Intn(len(hs))
				l = corr.Pick(rr, []string{"h.write %d 7a7a", "h.writeat %d 7a 0", "h.writestring %d 7a", "h.trunc %d 0", "h.sync %d"})
				l = fmt.Sprintf(l, h)
			case k < 80:
				h := rr.Intn(len(hs))
				if s > steps/2 {
					l = fmt.Sprintf("h.close %d", h)
				} else {
					l = fmt.Sprintf("h.name %d", h)
				}
			case k < 88:
				p := corr.Pick(rr, paths)
				l = "open " + hp(p)
				if sz, d, ok := size(p); ok {
					hs = append(hs, hrec{size: sz, dir: d})
				}
			case k < 96:
				l = "stat " + hp(corr.Pick(rr, paths))
			default:
				m := corr.Pick(rr, []string{"create", "mkdir", "mkdirall", "remove", "removeall", "chmod", "chown", "chtimes"})
				l = m + " " + hp(corr.Pick(rr, paths))
			}
			// after Close only the data calls and the mutators are inside the property
			if f := strings.Fields(l); strings.HasPrefix(f[0], "h.") {
				h := atoi(f[1])
				if hs[h].closed {
					switch f[0] {
					case "h.readdir", "h.readdirnames", "h.stat", "h.name", "h.close":
						continue
					}
				}
				if f[0] == "h.close" {
					hs[h].closed = true
				}
			}
			lines = append(lines, l)
		}
		// the view at the end: the root listing and one full read per open file handle
		lines = append(lines, "open "+hp("/"))
		lines = append(lines, "h.readdir "+strconv.Itoa(len(hs))+" -1")
		for h, rec := range hs {
			if !rec.dir && !rec.closed && h < 4 {
				lines = append(lines, fmt.Sprintf("h.readat %d %d 0", h, rec.size+1))
			}
		}
		c := c14Case(kind, es, lines...)
		seen := map[string]bool{}
		for _, e := range es {
			if cp := c14Clean(e.name); seen[cp] {
				// two entries with one cleaned path: outside the property's domain (which of them
				// wins is zipfs/tarfs specific), so only the oracle looks at the case
				c.Lines[0] = "o" + c.Lines[0]
				break
			} else {
				seen[cp] = true
			}
		}
		cases = append(cases, c)
	}
	return cases
}

func C14() *corr.Engine {
	return &corr.Engine{
		ID: "C14", DriverEngine: "archive",
		Corpus: c14Corpus, Exhaustive: c14Exhaustive, Random: c14Random,
		RunImpl: c14RunImpl, Oracle: c14Oracle, NonTrivial: c14NonTrivial,
		Rule:      "archives built in memory (zip Store, zip Deflate, tar) with read programs; non-trivial = at least 2 handles on one entry whose reads interleave (the reading handle changes at least twice), or a read/seek position beyond the end of the entry; distinct by script hash",
		Signature: c14Signature, Classify: c14Classify, CompareLine: c14CompareLine,
	}
}
