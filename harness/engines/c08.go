package engines

import (
	"bytes"
	"fmt"
	"io"
	"os"
	"path/filepath"
	"regexp"
	"sort"
	"strings"
	"time"

	"github.com/spf13/afero"

	"verifharness/corr"
)

// ---------------------------------------------------------------------------------------
// C08 — BasePathFs and HttpFs.Dir confine every access to their root directory.
// Script (engine `path`):
//   case <label>
//   clean|dir|base <hex> ; split <hex> ; join <hex> <hex>      model of path/filepath vs Go
//   realpath <base-hex> <name-hex>                              model RealPath vs (*BasePathFs).RealPath
//   httppath <base-hex> <name-hex>                              name handed to the source by httpDir.Open
//   op <kind> <root-hex> <method> <name-hex> [<name2-hex>]      oracle only: outside of root untouched / unread
//        kind ∈ bp | nest | sub | subbp | http
// ---------------------------------------------------------------------------------------

const canary = "CANARY-OUTSIDE-"

// the underlying tree: inside /base, and several outside places including a sibling whose
// name extends the root's last segment
func c08Tree() afero.Fs {
	m := afero.NewMemMapFs()
	m.MkdirAll("/base/sub/deep", 0o755)
	m.MkdirAll("/basement/sub", 0o755)
	m.MkdirAll("/other", 0o755)
	afero.WriteFile(m, "/base/in.txt", []byte("inside"), 0o644)
	afero.WriteFile(m, "/base/sub/x", []byte("inside-x"), 0o644)
	afero.WriteFile(m, "/base/sub/deep/y", []byte("inside-y"), 0o644)
	afero.WriteFile(m, "/basement/secret", []byte(canary+"1"), 0o644)
	afero.WriteFile(m, "/basement/sub/x", []byte(canary+"2"), 0o644)
	afero.WriteFile(m, "/other/secret", []byte(canary+"3"), 0o644)
	afero.WriteFile(m, "/secret", []byte(canary+"4"), 0o644)
	afero.WriteFile(m, "/base.txt", []byte(canary+"5"), 0o644)
	old := time.Unix(1000000, 987_654_321)
	afero.Walk(m, "/", func(p string, fi os.FileInfo, err error) error { m.Chtimes(p, old, old); return nil })
	return m
}

// snapshot of everything that is not inside `root` (cleaned, rooted): path, kind, bytes, mode, mtime
func outsideSnapshot(m afero.Fs, root string) string {
	var lines []string
	// own bounded walk: an operation that escaped the root may have left the source tree cyclic
	// (a directory listing itself), on which afero.Walk would not terminate
	var visit func(p string, depth int)
	visit = func(p string, depth int) {
		inside := p == root || strings.HasPrefix(p, strings.TrimSuffix(root, "/")+"/")
		if inside {
			return // whatever happens to the root's own subtree (including its removal) is not outside
		}
		fi, err := m.Stat(p)
		if err != nil {
			lines = append(lines, p+" walk-error "+err.Error())
			return
		}
		if depth > 40 {
			lines = append(lines, p+" tree-too-deep (cyclic?)")
			return
		}
		switch {
		case strings.HasPrefix(root, strings.TrimSuffix(p, "/")+"/"):
			// ancestors of root are outside too, but their mtime/listing legitimately changes when
			// root's own entry changes; only their existence and mode are recorded
			lines = append(lines, fmt.Sprintf("%s anc %v", p, fi.Mode()))
		case fi.IsDir():
			lines = append(lines, fmt.Sprintf("%s dir %v %d", p, fi.Mode(), fi.ModTime().UnixNano()))
		default:
			b, _ := afero.ReadFile(m, p)
			lines = append(lines, fmt.Sprintf("%s file %v %d %x", p, fi.Mode(), fi.ModTime().UnixNano(), b))
		}
		if fi.IsDir() {
			fis, _ := afero.ReadDir(m, p)
			for _, c := range fis {
				visit(filepath.Join(p, c.Name()), depth+1)
			}
		}
	}
	visit("/", 0)
	sort.Strings(lines)
	return strings.Join(lines, "\n")
}

type recFs struct {
	afero.Fs
	opened []string
}

func (r *recFs) Open(name string) (afero.File, error) {
	r.opened = append(r.opened, name)
	return r.Fs.Open(name)
}

func errClass(err error) string {
	if err == nil {
		return "ok"
	}
	switch {
	case os.IsNotExist(err):
		return "notexist"
	case os.IsExist(err):
		return "exist"
	case os.IsPermission(err):
		return "perm"
	}
	return FileErrClass(err)
}

// c08NestRegion: where a BasePathFs rooted at inner on top of a BasePathFs rooted at outer works. A rooted inner root
// is cleaned at the virtual root first ("/../x" is "/x" below the outer root); a relative one is handed to the outer
// file system as it is, which resolves it against its own root ("../sub/x" below "/base/sub" is "/base/sub/x" —
// and a relative inner root that leaves the outer root makes every name escape).
func c08NestRegion(outer, inner string) string {
	if strings.HasPrefix(inner, "/") || inner == "" {
		return filepath.Join(outer, filepath.Clean("/"+inner))
	}
	return filepath.Clean(filepath.Join(outer, inner))
}

func c08Op(t []string) string {
	kind, root, method := t[1], string(corr.UnHex(t[2])), t[3]
	name := string(corr.UnHex(t[4]))
	name2 := ""
	if len(t) > 5 {
		name2 = string(corr.UnHex(t[5]))
	}
	m := c08Tree()
	croot := filepath.Clean(root)
	var fs afero.Fs
	switch kind {
	case "bp":
		fs = afero.NewBasePathFs(m, root)
	case "nest":
		// root = outer + "|" + inner. The inner fs hands Clean(Join(inner, name)) to the outer one, which
		// prepends its own root: the region is the inner root re-rooted under the outer root, and in
		// particular never leaves the outer root, however the inner root is spelled ("/../x")
		parts := strings.SplitN(root, "|", 2)
		fs = afero.NewBasePathFs(afero.NewBasePathFs(m, parts[0]), parts[1])
		croot = c08NestRegion(parts[0], parts[1])
	case "bpre": // a source that is not an Lstater (a RegexpFs that lets everything through)
		fs = afero.NewBasePathFs(afero.NewRegexpFs(m, regexp.MustCompile(``)), root)
	case "sub":
		sub, _ := afero.NewIOFS(m).Sub(root)
		fs = afero.FromIOFS{FS: sub}
	case "subbp": // root = outer + "|" + dir: IOFS over a BasePathFs, then Sub(dir) — the region is the same as for nest
		parts := strings.SplitN(root, "|", 2)
		sub, _ := afero.NewIOFS(afero.NewBasePathFs(m, parts[0])).Sub(parts[1])
		fs = afero.FromIOFS{FS: sub}
		croot = c08NestRegion(parts[0], parts[1])
	case "http":
	}
	if method == "rename" {
		// renaming a directory into its own subtree is ill-formed for the source (POSIX: EINVAL)
		// (both names as the stack resolves them: each level joins its cleaned root in front and cleans, innermost first)
		resolve := func(nm string) string {
			roots := []string{root}
			if kind == "nest" {
				roots = strings.SplitN(root, "|", 2)
			}
			for i := len(roots) - 1; i >= 0; i-- {
				nm = filepath.Clean(filepath.Join(filepath.Clean(roots[i]), nm))
			}
			return nm
		}
		o, n := resolve(name), resolve(name2)
		if o == n || strings.HasPrefix(n, strings.TrimSuffix(o, "/")+"/") {
			return "skipped-illformed"
		}
	}
	before := outsideSnapshot(m, croot)
	insideNames := map[string]bool{}
	afero.Walk(m, "/", func(p string, fi os.FileInfo, err error) error {
		if err == nil && p != croot && strings.HasPrefix(p, strings.TrimSuffix(croot, "/")+"/") {
			insideNames[filepath.Base(p)] = true
		}
		return nil
	})
	var got bytes.Buffer
	res := "ok"
	readAll := func(f afero.File) {
		if fi, err := f.Stat(); err == nil && fi.IsDir() {
			names, _ := f.Readdirnames(-1)
			sort.Strings(names)
			got.WriteString(strings.Join(names, ","))
			// contents of everything listed, through the same fs
			return
		}
		b, _ := io.ReadAll(f)
		got.Write(b)
	}
	if kind == "http" {
		hd := afero.NewHttpFs(m).Dir(root)
		f, err := hd.Open(name)
		res = errClass(err)
		if err == nil {
			if fi, e := f.Stat(); e == nil && fi.IsDir() {
				fis, _ := f.Readdir(-1)
				for _, fi := range fis {
					got.WriteString(fi.Name() + ",")
				}
			} else {
				b, _ := io.ReadAll(f)
				got.Write(b)
			}
			f.Close()
		}
	} else {
		var err error
		switch method {
		case "stat":
			var fi os.FileInfo
			fi, err = fs.Stat(name)
			if err == nil {
				fmt.Fprintf(&got, "%s %d", fi.Name(), fi.Size())
			}
		case "open":
			var f afero.File
			f, err = fs.Open(name)
			if err == nil {
				readAll(f)
				f.Close()
			}
		case "openfile-ro":
			var f afero.File
			f, err = fs.OpenFile(name, os.O_RDONLY, 0)
			if err == nil {
				readAll(f)
				f.Close()
			}
		case "openfile-rw":
			var f afero.File
			f, err = fs.OpenFile(name, os.O_RDWR|os.O_CREATE, 0o644)
			if err == nil {
				f.Write([]byte("W"))
				f.Close()
			}
		case "openfile-trunc":
			var f afero.File
			f, err = fs.OpenFile(name, os.O_WRONLY|os.O_TRUNC, 0o644)
			if err == nil {
				f.Close()
			}
		case "create":
			var f afero.File
			f, err = fs.Create(name)
			if err == nil {
				f.Write([]byte("C"))
				f.Close()
			}
		case "mkdir":
			err = fs.Mkdir(name, 0o700)
		case "mkdirall":
			err = fs.MkdirAll(name, 0o700)
		case "remove":
			err = fs.Remove(name)
		case "removeall":
			err = fs.RemoveAll(name)
		case "rename":
			err = fs.Rename(name, name2)
		case "chmod":
			err = fs.Chmod(name, 0o600)
		case "chown":
			err = fs.Chown(name, 7, 7)
		case "chtimes":
			err = fs.Chtimes(name, time.Unix(5, 0), time.Unix(5, 0))
		case "lstat":
			if l, ok := fs.(afero.Lstater); ok {
				var fi os.FileInfo
				fi, _, err = l.LstatIfPossible(name)
				if err == nil {
					fmt.Fprintf(&got, "%s %d", fi.Name(), fi.Size())
				}
			}
		case "readfile":
			var b []byte
			b, err = afero.ReadFile(fs, name)
			got.Write(b)
		case "symlink": // both arguments are names
			if l, ok := fs.(afero.Linker); ok {
				err = l.SymlinkIfPossible(name, name2)
			}
		case "readlink":
			if l, ok := fs.(afero.LinkReader); ok {
				var s string
				s, err = l.ReadlinkIfPossible(name)
				got.WriteString(s)
			}
		case "readdir":
			var fis []os.FileInfo
			fis, err = afero.ReadDir(fs, name)
			for _, fi := range fis {
				got.WriteString(fi.Name() + ",")
			}
		}
		res = errClass(err)
	}
	leak := ""
	if kind == "bp" || kind == "nest" || kind == "bpre" {
		// a name that leaves the root is reported as not existing — every method, whichever argument it is,
		// whether or not the source supports the operation
		escOne := func(root, n string) (string, bool) {
			r := filepath.Clean(root)
			p := filepath.Clean(filepath.Join(r, n))
			return p, !segPrefix(r, p)
		}
		esc := func(n string) bool {
			if kind == "nest" { // resolved by the inner file system first, then by the outer one
				parts := strings.SplitN(root, "|", 2)
				p1, e1 := escOne(parts[1], n)
				if e1 {
					return true
				}
				_, e2 := escOne(parts[0], p1)
				return e2
			}
			_, e := escOne(root, n)
			return e
		}
		if (esc(name) || (method == "symlink" || method == "rename") && esc(name2)) && res != "notexist" {
			leak += " LEAK:escaping-name-accepted(" + res + ")"
		}
	}
	inRegion := func(p string) bool { return p == croot || strings.HasPrefix(p, strings.TrimSuffix(croot, "/")+"/") }
	for k, p := range []string{"/basement/secret", "/basement/sub/x", "/other/secret", "/secret", "/base.txt"} {
		if !inRegion(p) && strings.Contains(got.String(), fmt.Sprintf("%s%d", canary, k+1)) {
			leak += " LEAK:read-outside"
		}
	}
	for _, n := range []string{"basement", "secret", "other", "base.txt"} {
		if insideNames[n] {
			continue // the region itself has an entry of that name
		}
		for _, el := range strings.Split(got.String(), ",") {
			if el == n {
				leak += " LEAK:listed-outside(" + n + ")"
			}
		}
	}
	if d := outsideChanged(before, outsideSnapshot(m, croot)); d != "" {
		leak += " LEAK:modified-outside"
	}
	return res + leak
}

// outsideChanged compares two outside snapshots. An ancestor directory of the root that comes into
// existence is not a change outside: MemMapFs creates missing parents of whatever it creates, so the
// first entry made inside a not-yet-existing root brings the root and its ancestors with it.
func outsideChanged(before, after string) string {
	b := map[string]bool{}
	for _, l := range strings.Split(before, "\n") {
		b[l] = true
	}
	a := map[string]bool{}
	for _, l := range strings.Split(after, "\n") {
		a[l] = true
		if !b[l] && !strings.Contains(l, " anc ") {
			return "new or changed: " + l
		}
	}
	for l := range b {
		if !a[l] {
			return "gone or changed: " + l
		}
	}
	return ""
}

func c08RunImpl(c corr.Case) []string {
	out := make([]string, 0, len(c.Lines))
	for _, line := range c.Lines {
		t := strings.Fields(line)
		out = append(out, guard(func() string {
			arg := func(i int) string { return string(corr.UnHex(t[i])) }
			switch t[0] {
			case "case":
				return "case"
			case "clean":
				return corr.HexS(filepath.Clean(arg(1)))
			case "join":
				return corr.HexS(filepath.Join(arg(1), arg(2)))
			case "split":
				d, f := filepath.Split(arg(1))
				return corr.HexS(d) + " " + corr.HexS(f)
			case "dir":
				return corr.HexS(filepath.Dir(arg(1)))
			case "base":
				return corr.HexS(filepath.Base(arg(1)))
			case "realpath":
				b := afero.NewBasePathFs(afero.NewMemMapFs(), arg(1)).(*afero.BasePathFs)
				p, err := b.RealPath(arg(2))
				if err != nil {
					return errClass(err)
				}
				return "ok " + corr.HexS(p)
			case "httppath":
				r := &recFs{Fs: afero.NewMemMapFs()}
				afero.NewHttpFs(r).Dir(arg(1)).Open(arg(2))
				if len(r.opened) != 1 {
					return fmt.Sprintf("opened=%d", len(r.opened))
				}
				return corr.HexS(r.opened[0])
			case "op":
				return c08Op(t)
			case "iofsos":
				return c08OSOp(t)
			}
			return "bad-op"
		}))
	}
	return out
}

func c08Oracle(c corr.Case, impl []string) (string, int) {
	for i, line := range c.Lines {
		t := strings.Fields(line)
		switch t[0] {
		case "iofsos":
			if strings.Contains(impl[i], "LEAK") || impl[i] == "panic" {
				return fmt.Sprintf("%s over the OS, %s(%q): %s", t[1], t[2], corr.UnHex(t[3]), impl[i]), i
			}
		case "op":
			if strings.Contains(impl[i], "LEAK") || impl[i] == "panic" {
				return fmt.Sprintf("%s %s on root %q name %q: %s", t[1], t[3], corr.UnHex(t[2]), corr.UnHex(t[4]), impl[i]), i
			}
		case "realpath":
			// independent statement of confinement on the implementation's own answer:
			// an accepted path, split into segments, must start with the segments of the cleaned root
			if strings.HasPrefix(impl[i], "ok ") {
				root := filepath.Clean(string(corr.UnHex(t[1])))
				p := string(corr.UnHex(strings.TrimPrefix(impl[i], "ok ")))
				if !segPrefix(root, p) {
					return fmt.Sprintf("RealPath(root %q, name %q) = %q lies outside the root", corr.UnHex(t[1]), corr.UnHex(t[2]), p), i
				}
			}
		case "httppath":
			root := string(corr.UnHex(t[1]))
			if root == "" {
				root = "."
			}
			root = filepath.Clean(root)
			if p := string(corr.UnHex(impl[i])); !segPrefix(root, p) {
				return fmt.Sprintf("httpDir(%q).Open(%q) reaches %q outside the root", corr.UnHex(t[1]), corr.UnHex(t[2]), p), i
			}
		}
	}
	return "", -1
}

// segPrefix: root's segments are a prefix of p's segments (both cleaned)
func segPrefix(root, p string) bool {
	if root == "." {
		return !strings.HasPrefix(p, "/") && p != ".." && !strings.HasPrefix(p, "../")
	}
	rs, ps := strings.Split(strings.Trim(root, "/"), "/"), strings.Split(strings.Trim(p, "/"), "/")
	if strings.HasPrefix(root, "/") != strings.HasPrefix(p, "/") {
		return false
	}
	if root == "/" {
		return true
	}
	if len(ps) < len(rs) {
		return false
	}
	for i := range rs {
		if rs[i] != ps[i] {
			return false
		}
	}
	// below a root made of ".." elements a cleaned path can go on with "..": it has left the root again
	return len(ps) == len(rs) || ps[len(rs)] != ".."
}

var c08Methods = []string{"stat", "open", "openfile-ro", "openfile-rw", "openfile-trunc", "create", "mkdir", "mkdirall",
	"remove", "removeall", "chmod", "chown", "chtimes", "lstat", "readfile", "readdir", "readlink"}

func spellings(alpha []string, maxSeg int) []string {
	var res []string
	var rec func(cur []string)
	rec = func(cur []string) {
		if len(cur) > 0 {
			j := strings.Join(cur, "/")
			res = append(res, j, "/"+j, j+"/", "/"+j+"/")
		}
		if len(cur) == maxSeg {
			return
		}
		for _, a := range alpha {
			rec(append(append([]string{}, cur...), a))
		}
	}
	rec(nil)
	res = append(res, "", "/")
	return res
}

func c08Exhaustive(tier string) []corr.Case {
	var cases []corr.Case
	var batch []string
	flush := func() {
		if len(batch) > 0 {
			cases = append(cases, corr.Case{Lines: append([]string{"case table"}, batch...)})
			batch = nil
		}
	}
	add := func(l string) {
		batch = append(batch, l)
		if len(batch) >= 400 {
			flush()
		}
	}
	// 1. path/filepath model validation: all strings up to length N over {/ . a b}
	maxLen := 7
	if tier == "thorough" {
		maxLen = 8
	}
	al := []byte("/.ab")
	var strs []string
	var gen func(cur []byte)
	gen = func(cur []byte) {
		strs = append(strs, string(cur))
		if len(cur) == maxLen {
			return
		}
		for _, ch := range al {
			gen(append(append([]byte{}, cur...), ch))
		}
	}
	gen(nil)
	for _, s := range strs {
		add("clean " + corr.HexS(s))
		if len(s) <= 6 {
			add("split " + corr.HexS(s))
			add("dir " + corr.HexS(s))
			add("base " + corr.HexS(s))
		}
	}
	for _, a := range strs {
		if len(a) > 3 {
			continue
		}
		for _, b := range strs {
			if len(b) <= 4 {
				add("join " + corr.HexS(a) + " " + corr.HexS(b))
			}
		}
	}
	flush()
	// 2. RealPath / httpPath: every spelling × every root
	maxSeg := 4
	if tier == "thorough" {
		maxSeg = 5
	}
	names := spellings([]string{"", ".", "..", "a", "base", "basement"}, maxSeg)
	roots := []string{"/base", "/base/", "/base/sub/..", "//base/.", "/", "base", "./base/", "", ".", "/a/base", "../base", "/base/a", "..", "../..", "a/../..", "./"}
	for _, r := range roots {
		for _, n := range names {
			add("realpath " + corr.HexS(r) + " " + corr.HexS(n))
			add("httppath " + corr.HexS(r) + " " + corr.HexS(n))
		}
	}
	flush()
	// 3. every method × every spelling (≤ 3 segments quick) on the canary tree
	opSeg := 3
	if tier == "thorough" {
		opSeg = 4
	}
	opNames := spellings([]string{".", "..", "basement", "sub", "secret", "in.txt"}, opSeg)
	opRoots := []struct{ kind, root string }{
		{"bp", "/base"}, {"bp", "/base/"}, {"bp", "/base/sub/.."}, {"nest", "/|base"}, {"nest", "/base|sub"},
		{"nest", "/base|/../basement"}, {"nest", "/base|../other"}, {"nest", "/base/sub|deep/../../../basement"},
		{"http", "/base"}, {"sub", "/base"}, {"bpre", "/base"},
		{"subbp", "/base|sub"}, {"subbp", "/base|../other"}, {"subbp", "/base|../basement"}, {"subbp", "/base/sub|deep/../../../basement"}, {"subbp", "/base|sub/../.."},
	}
	// names that begin with the root's own path and then climb out of it
	selfPrefixed := []string{"/base/../secret", "/base//../basement/secret", "/base/sub/../../secret", "base/../secret", "/base/../basement", "/base/..", "/base/in.txt", "/base/../base/in.txt"}
	for _, r := range opRoots {
		names := opNames
		if r.kind != "http" {
			names = append(append([]string{}, opNames...), selfPrefixed...)
		}
		for _, n := range names {
			if r.kind == "http" {
				add(fmt.Sprintf("op http %s open %s", corr.HexS(r.root), corr.HexS(n)))
				continue
			}
			for _, m := range c08Methods {
				if (r.kind == "sub" || r.kind == "subbp") && m != "stat" && m != "open" && m != "readfile" && m != "readdir" {
					continue
				}
				add(fmt.Sprintf("op %s %s %s %s", r.kind, corr.HexS(r.root), m, corr.HexS(n)))
			}
		}
		// rename: both arguments
		short := spellings([]string{"..", "basement", "secret", "in.txt"}, 2)
		if r.kind == "bp" || r.kind == "nest" {
			for _, a := range short {
				for _, b := range short {
					add(fmt.Sprintf("op %s %s rename %s %s", r.kind, corr.HexS(r.root), corr.HexS(a), corr.HexS(b)))
					add(fmt.Sprintf("op %s %s symlink %s %s", r.kind, corr.HexS(r.root), corr.HexS(a), corr.HexS(b)))
				}
			}
		}
	}
	flush()
	// 3b. percent signs are ordinary characters of a name (decoding a URL is the HTTP server's business, before it asks the file system)
	for _, n := range []string{"/%2e%2e/secret", "%2E%2E%2Fsecret", "/..%2fsecret", "/%2e%2e", "/%2e%2e/basement/secret", "/sub/%2e%2e/%2e%2e/secret", "/100%.txt", "/a%2Fb", "/%2fsecret", "/in.txt%00"} {
		for _, root := range []string{"/base", "/base/", "/base/sub"} {
			add("httppath " + corr.HexS(root) + " " + corr.HexS(n))
			add(fmt.Sprintf("op http %s open %s", corr.HexS(root), corr.HexS(n)))
			add("realpath " + corr.HexS(root) + " " + corr.HexS(n))
			add(fmt.Sprintf("op bp %s open %s", corr.HexS(root), corr.HexS(n)))
		}
	}
	flush()
	// 4. the io/fs adapter over a BasePathFs on the operating system's file system: every entry point × escaping names
	for _, l := range c08OSCases() {
		add(l)
	}
	flush()
	return cases
}

func c08Random(r *corr.Rand, tier string) []corr.Case {
	n := 200
	if tier == "thorough" {
		n = 4000
	}
	segs := []string{"", ".", "..", "...", "a", "base", "basement", "base.txt", "sub", "secret", "in.txt", " ", "b/", "..."}
	var cases []corr.Case
	for i := 0; i < n; i++ {
		rr := r.Fork()
		var lines []string
		for k := 0; k < 30; k++ {
			mk := func() string {
				d := 1 + rr.Intn(7)
				var p []string
				for j := 0; j < d; j++ {
					p = append(p, corr.Pick(rr, segs))
				}
				s := strings.Join(p, "/")
				if rr.Chance(40) {
					s = "/" + s
				}
				return s
			}
			root := corr.Pick(rr, []string{"/base", "/base/", "/base/sub", "/", "base", "/base/../base", mk()})
			name := mk()
			switch rr.Intn(5) {
			case 0:
				lines = append(lines, "clean "+corr.HexS(name), "dir "+corr.HexS(name), "base "+corr.HexS(name), "split "+corr.HexS(name))
			case 1:
				lines = append(lines, "join "+corr.HexS(root)+" "+corr.HexS(name))
			case 2:
				lines = append(lines, "realpath "+corr.HexS(root)+" "+corr.HexS(name), "httppath "+corr.HexS(root)+" "+corr.HexS(name))
			default:
				kind := corr.Pick(rr, []string{"bp", "bp", "http", "sub", "nest", "subbp"})
				rt := corr.Pick(rr, []string{"/base", "/base/", "/base/sub", "/base/./sub/.."})
				if kind == "nest" || kind == "subbp" {
					rt = corr.Pick(rr, []string{"/base", "/base/sub", "/"}) + "|" + corr.Pick(rr, []string{"sub", "/../basement", "../other", "/..", "deep/../../..", strings.ReplaceAll(mk(), "|", "")})
				}
				m := corr.Pick(rr, c08Methods)
				if kind == "http" {
					m = "open"
				}
				if kind == "sub" || kind == "subbp" {
					m = corr.Pick(rr, []string{"stat", "open", "readfile", "readdir"})
				}
				if rr.Chance(15) && (kind == "bp" || kind == "nest") {
					lines = append(lines, fmt.Sprintf("op %s %s rename %s %s", kind, corr.HexS(rt), corr.HexS(name), corr.HexS(mk())))
				} else {
					lines = append(lines, fmt.Sprintf("op %s %s %s %s", kind, corr.HexS(rt), m, corr.HexS(name)))
				}
			}
		}
		cases = append(cases, corr.Case{Lines: append([]string{"case random"}, lines...)})
	}
	return cases
}

func c08Corpus() []corr.Case {
	mk := func(l ...string) corr.Case { return corr.Case{Lines: l} }
	h := corr.HexS
	return []corr.Case{
		// S5: sibling sharing the root's name prefix
		mk("case s5", "realpath "+h("/base")+" "+h("../basement/secret"), "op bp "+h("/base")+" readfile "+h("../basement/secret"),
			"op bp "+h("/base")+" create "+h("../basement/new"), "op bp "+h("/base")+" remove "+h("../base.txt"),
			"op bp "+h("/base")+" rename "+h("in.txt")+" "+h("../basement/moved"),
			"realpath "+h("base")+" "+h("../basement")),
		mk("case http", "httppath "+h("/base")+" "+h("../../secret"), "op http "+h("/base")+" open "+h("/../basement/secret")),
	}
}

func c08Facts(line string) (escapes, sharesPrefix bool) {
	t := strings.Fields(line)
	var root, name string
	switch t[0] {
	case "realpath", "httppath":
		root, name = string(corr.UnHex(t[1])), string(corr.UnHex(t[2]))
	case "op":
		root, name = string(corr.UnHex(t[2])), string(corr.UnHex(t[4]))
	default:
		return
	}
	croot := filepath.Clean(root)
	joined := filepath.Clean(croot + "/" + name)
	escapes = !segPrefix(croot, joined)
	sharesPrefix = escapes && strings.HasPrefix(joined, croot)
	return
}

func C08() *corr.Engine {
	return &corr.Engine{
		ID: "C08", DriverEngine: "path",
		Corpus: c08Corpus, Exhaustive: c08Exhaustive, Random: c08Random,
		RunImpl: c08RunImpl, Oracle: c08Oracle,
		NonTrivial: func(c corr.Case, impl []string) bool {
			for _, l := range c.Lines {
				if e, _ := c08Facts(l); e {
					return true
				}
			}
			return false
		},
		Classify: func(c corr.Case, impl []string, hist map[string]int) {
			for i, l := range c.Lines {
				t := strings.Fields(l)
				hist["op:"+t[0]]++
				if t[0] == "op" {
					hist["method:"+t[3]]++
					hist["kind:"+t[1]]++
					hist["result:"+strings.Fields(impl[i])[0]]++
				}
				e, s := c08Facts(l)
				if e {
					hist["branch:name-escapes-root"]++
				}
				if s {
					hist["branch:escape-shares-string-prefix"]++
				}
			}
		},
		Rule: "path-function table (all strings ≤ 7/8 over {/ . a b}), RealPath/httpDir path for every spelling (≤ 4/5 segments over {\"\", ., .., a, base, basement}) × 12 roots, every Fs method × every spelling on a canary tree; a case is non-trivial when at least one name leaves the root lexically; distinct by script hash",
		Signature: func(c corr.Case, impl []string, what string, line int) string {
			t := strings.Fields(c.Lines[line])
			if t[0] == "op" {
				return "C08:op:" + t[1] + ":" + t[3]
			}
			return "C08:" + t[0]
		},
		CompareLine: func(impl, model string) bool { return model == "unmodelled" },
	}
}
