package engines

import (
	"bytes"
	"errors"
	"fmt"
	"io"
	"os"
	"strconv"
	"strings"

	"github.com/spf13/afero"
	"github.com/spf13/afero/mem"

	"verifharness/corr"
)

// ---------------------------------------------------------------------------------------
// C02 — in-memory file contents equal a flat byte-array model.
// Script (engine `memfile`):  case <hex init> <modes over {w,r}> ; read h n ; readat h n off ;
// write h hex ; writeat h hex off ; trunc h n ; seek h off wh ; close h ; size
// ---------------------------------------------------------------------------------------

// FileErrClass maps an error from a file-handle call to its canonical class.
func FileErrClass(err error) string {
	if err == nil {
		return "-"
	}
	var pe *os.PathError
	switch {
	case errors.Is(err, mem.ErrFileClosed) || errors.Is(err, os.ErrClosed):
		return "closed"
	case errors.Is(err, io.EOF) || errors.Is(err, io.ErrUnexpectedEOF):
		return "eof"
	case errors.Is(err, mem.ErrOutOfRange):
		return "range"
	case errors.Is(err, os.ErrInvalid):
		return "inval"
	case errors.As(err, &pe) && strings.Contains(pe.Err.Error(), "read only"):
		return "rohandle"
	case errors.Is(err, os.ErrPermission):
		return "perm"
	case errors.Is(err, os.ErrNotExist):
		return "notexist"
	case errors.Is(err, os.ErrExist):
		return "exist"
	}
	if strings.Contains(err.Error(), "negative") || strings.Contains(err.Error(), "invalid argument") {
		return "inval"
	}
	return "other(" + err.Error() + ")"
}

type memFileImpl struct {
	fd    *mem.FileData
	hs    []*mem.File
	viaFs afero.Fs // set when the handles were obtained from a MemMapFs (cases with an 'a' handle)
}

func atoi(s string) int {
	n, err := strconv.Atoi(s)
	if err != nil {
		panic("bad int " + s)
	}
	return n
}
func atoi64(s string) int64 {
	n, err := strconv.ParseInt(s, 10, 64)
	if err != nil {
		panic("bad int " + s)
	}
	return n
}

// guard runs f and turns a Go panic into the canonical "panic" line.
func guard(f func() string) (out string) {
	defer func() {
		if r := recover(); r != nil {
			out = "panic"
		}
	}()
	return f()
}

func c02RunImpl(c corr.Case) []string {
	var st memFileImpl
	out := make([]string, 0, len(c.Lines))
	for _, line := range c.Lines {
		t := strings.Fields(line)
		out = append(out, guard(func() string {
			if t[0] == "case" && strings.Contains(t[2], "a") {
				// handles as MemMapFs hands them out ('a': opened with O_APPEND — positioned at the end, an ordinary handle otherwise)
				fs := afero.NewMemMapFs()
				if err := afero.WriteFile(fs, "/f", corr.UnHex(t[1]), 0o644); err != nil {
					panic(err)
				}
				st = memFileImpl{viaFs: fs}
				for _, m := range t[2] {
					var f afero.File
					var err error
					switch m {
					case 'r':
						f, err = fs.Open("/f")
					case 'a':
						f, err = fs.OpenFile("/f", os.O_RDWR|os.O_APPEND, 0)
					default:
						f, err = fs.OpenFile("/f", os.O_RDWR, 0)
					}
					if err != nil {
						panic(err)
					}
					st.hs = append(st.hs, f.(*mem.File))
				}
				return "case"
			}
			if t[0] == "size" && st.viaFs != nil {
				fi, _ := st.viaFs.Stat("/f")
				return fmt.Sprintf("size=%d", fi.Size())
			}
			if t[0] == "case" {
				st = memFileImpl{fd: mem.CreateFile("/f")}
				if d := corr.UnHex(t[1]); len(d) > 0 {
					w := mem.NewFileHandle(st.fd)
					w.Write(d)
				}
				for _, m := range t[2] {
					if m == 'r' {
						st.hs = append(st.hs, mem.NewReadOnlyFileHandle(st.fd))
					} else {
						st.hs = append(st.hs, mem.NewFileHandle(st.fd))
					}
				}
				return "case"
			}
			if t[0] == "size" {
				fi, _ := mem.NewReadOnlyFileHandle(st.fd).Stat()
				return fmt.Sprintf("size=%d", fi.Size())
			}
			hi := atoi(t[1])
			if hi >= len(st.hs) {
				return "err:inval"
			}
			return FileOp(st.hs[hi], t)
		}))
	}
	return out
}

// FileOp executes one handle op (tokens: op h args…) on any afero-style file.
type fileLike interface {
	io.Reader
	io.ReaderAt
	io.Writer
	io.WriterAt
	io.Seeker
	io.Closer
	io.StringWriter
	Truncate(int64) error
}

func FileOp(h fileLike, t []string) string {
	switch t[0] {
	case "read":
		b := make([]byte, atoi(t[2]))
		n, err := h.Read(b)
		res := fmt.Sprintf("bytes=%s err:%s", corr.Hex(b[:n]), FileErrClass(err))
		scribble(b)
		return res
	case "readat":
		b := make([]byte, atoi(t[2]))
		n, err := h.ReadAt(b, atoi64(t[3]))
		defer scribble(b)
		return fmt.Sprintf("bytes=%s err:%s", corr.Hex(b[:n]), FileErrClass(err))
	case "write":
		b := corr.UnHex(t[2])
		n, err := h.Write(b)
		scribble(b)
		return fmt.Sprintf("n=%d err:%s", n, FileErrClass(err))
	case "writestring":
		n, err := h.WriteString(string(corr.UnHex(t[2])))
		return fmt.Sprintf("n=%d err:%s", n, FileErrClass(err))
	case "readfrom":
		n, err := io.Copy(h, plainReader{bytes.NewReader(corr.UnHex(t[2]))})
		return fmt.Sprintf("n=%d err:%s", n, FileErrClass(err))
	case "copyout": // io.Copy out of the handle: io.WriterTo if the handle has it, Read until io.EOF otherwise
		var buf bytes.Buffer
		_, err := io.Copy(plainWriter{&buf}, h)
		return fmt.Sprintf("bytes=%s err:%s", corr.Hex(buf.Bytes()), FileErrClass(err))
	case "writeat":
		b := corr.UnHex(t[2])
		n, err := h.WriteAt(b, atoi64(t[3]))
		scribble(b)
		return fmt.Sprintf("n=%d err:%s", n, FileErrClass(err))
	case "trunc":
		err := h.Truncate(atoi64(t[2]))
		if err != nil {
			return "err:" + FileErrClass(err)
		}
		return "ok"
	case "seek":
		p, err := h.Seek(atoi64(t[2]), atoi(t[3]))
		if err != nil {
			return "err:" + FileErrClass(err)
		}
		return fmt.Sprintf("pos=%d", p)
	case "close":
		err := h.Close()
		if err != nil {
			return "err:" + FileErrClass(err)
		}
		return "ok"
	}
	return "bad-op"
}

// ---- the property oracle: a plain byte array with per-handle offsets (independent of Lean) ----

type flatH struct {
	pos    int64
	ro     bool
	closed bool
}
type Flat struct {
	data []byte
	hs   []flatH
	// coverage flags
	GapFill, TailKeep, Shrink, Extend, AcrossEOF bool
}

func (f *Flat) writeAt(off int64, b []byte) {
	if len(b) == 0 {
		return // writing nothing changes nothing
	}
	if off > int64(len(f.data)) {
		f.GapFill = true
	}
	if off+int64(len(b)) < int64(len(f.data)) {
		f.TailKeep = true
	}
	for int64(len(f.data)) < off+int64(len(b)) {
		f.data = append(f.data, 0)
	}
	copy(f.data[off:], b)
}

func (f *Flat) Step(t []string) string {
	switch t[0] {
	case "case":
		f.data = append([]byte(nil), corr.UnHex(t[1])...)
		f.hs = nil
		for _, m := range t[2] {
			h := flatH{ro: m == 'r'}
			if m == 'a' {
				h.pos = int64(len(f.data))
			}
			f.hs = append(f.hs, h)
		}
		return "case"
	case "size":
		return fmt.Sprintf("size=%d", len(f.data))
	}
	hi := atoi(t[1])
	if hi >= len(f.hs) {
		return "err:inval"
	}
	h := &f.hs[hi]
	L := int64(len(f.data))
	switch t[0] {
	case "read":
		n := int64(atoi(t[2]))
		if h.closed {
			return "bytes=- err:closed"
		}
		if h.pos >= L && (n > 0 || h.pos > L) {
			return "bytes=- err:eof"
		}
		end := h.pos + n
		if end > L {
			end = L
			f.AcrossEOF = true
		}
		r := f.data[h.pos:end]
		h.pos = end
		return fmt.Sprintf("bytes=%s err:-", corr.Hex(r))
	case "copyout": // everything from the handle's position to the end; the end itself is not an error
		if h.closed {
			return "bytes=- err:closed"
		}
		if h.pos > L {
			return "bytes=- err:eof"
		}
		r := f.data[h.pos:L]
		h.pos = L
		return fmt.Sprintf("bytes=%s err:-", corr.Hex(r))
	case "readat":
		n, off := int64(atoi(t[2])), atoi64(t[3])
		if off < 0 {
			return "bytes=- err:inval"
		}
		if h.closed {
			return "bytes=- err:closed"
		}
		var r []byte
		if off < L {
			end := off + n
			if end > L {
				end = L
			}
			r = f.data[off:end]
		}
		e := "-"
		if int64(len(r)) < n || off > L {
			e = "eof"
			f.AcrossEOF = true
		}
		return fmt.Sprintf("bytes=%s err:%s", corr.Hex(r), e)
	case "write", "writeat", "writestring", "readfrom":
		b := corr.UnHex(t[2])
		if t[0] == "writeat" && atoi64(t[3]) < 0 {
			return "n=0 err:inval"
		}
		if h.closed {
			return "n=0 err:closed"
		}
		if h.ro {
			return "n=0 err:rohandle"
		}
		off := h.pos
		if t[0] == "writeat" {
			off = atoi64(t[3])
			if off < 0 {
				return "n=0 err:inval"
			}
		}
		f.writeAt(off, b)
		if t[0] == "write" || t[0] == "writestring" || t[0] == "readfrom" {
			h.pos += int64(len(b))
		}
		return fmt.Sprintf("n=%d err:-", len(b))
	case "trunc":
		n := atoi64(t[2])
		if h.closed {
			return "err:closed"
		}
		if h.ro {
			return "err:rohandle"
		}
		if n < 0 {
			return "err:range"
		}
		if n < L {
			f.data = f.data[:n:n]
			f.Shrink = true
		} else {
			if n > L {
				f.Extend = true
			}
			f.data = append(f.data, make([]byte, n-L)...)
		}
		return "ok"
	case "seek":
		off, wh := atoi64(t[2]), atoi(t[3])
		if h.closed {
			return "err:closed"
		}
		var tgt int64
		switch wh {
		case 0:
			tgt = off
		case 1:
			tgt = h.pos + off
		case 2:
			tgt = L + off
		default:
			tgt = h.pos
		}
		if tgt < 0 {
			return "err:inval"
		}
		h.pos = tgt
		return fmt.Sprintf("pos=%d", tgt)
	case "close":
		h.closed = true
		return "ok"
	}
	return "bad-op"
}

func c02Oracle(c corr.Case, impl []string) (string, int) {
	var f Flat
	for i, line := range c.Lines {
		want := f.Step(strings.Fields(line))
		if i >= len(impl) {
			return "implementation produced no result", i
		}
		if impl[i] == "panic" {
			return fmt.Sprintf("call panics: %s", line), i
		}
		if impl[i] != want {
			return fmt.Sprintf("%s: implementation %q, flat byte array %q", strings.Fields(line)[0], impl[i], want), i
		}
	}
	return "", -1
}

func c02Flags(c corr.Case) (Flat, int) {
	var f Flat
	for _, line := range c.Lines {
		f.Step(strings.Fields(line))
	}
	return f, len(f.hs)
}

func c02NonTrivial(c corr.Case, impl []string) bool {
	f, nh := c02Flags(c)
	k := 0
	for _, b := range []bool{f.GapFill, f.TailKeep, f.Shrink, f.Extend, f.AcrossEOF} {
		if b {
			k++
		}
	}
	return k >= 2 && nh >= 2
}

func c02Classify(c corr.Case, impl []string, hist map[string]int) {
	for i, line := range c.Lines {
		op := strings.Fields(line)[0]
		hist["op:"+op]++
		if i < len(impl) {
			if k := strings.Index(impl[i], "err:"); k >= 0 {
				hist["err:"+impl[i][k+4:]]++
			}
		}
	}
	f, _ := c02Flags(c)
	for name, b := range map[string]bool{"gapfill": f.GapFill, "tailkeep": f.TailKeep, "shrink": f.Shrink, "extend": f.Extend, "across-eof": f.AcrossEOF} {
		if b {
			hist["branch:"+name]++
		}
	}
}

func payload(r *corr.Rand, n int) []byte {
	b := make([]byte, n)
	for i := range b {
		b[i] = byte(1 + r.Intn(250))
	}
	return b
}

// boundary-biased offset around the current length
func offNear(r *corr.Rand, L int64) int64 {
	cands := []int64{-2, -1, 0, 1, L - 1, L, L + 1, L + 3, 2 * L, L / 2}
	if r.Chance(15) {
		return int64(r.Intn(40)) - 3
	}
	return corr.Pick(r, cands)
}

func c02Random(r *corr.Rand, tier string) []corr.Case {
	n := 4000
	if tier == "thorough" {
		n = 300000
	}
	cases := make([]corr.Case, 0, n)
	for i := 0; i < n; i++ {
		rr := r.Fork()
		nh := 1 + rr.Intn(4)
		modes := ""
		for k := 0; k < nh; k++ {
			if rr.Chance(25) {
				modes += "r"
			} else {
				modes += "w"
			}
		}
		if i%5 == 4 { // a fifth of the programs use handles as MemMapFs hands them out, one of them opened with O_APPEND
			modes = modes[:len(modes)-1] + "a"
		}
		var f Flat
		hdr := fmt.Sprintf("case %s %s", corr.Hex(payload(rr, rr.Intn(7))), modes)
		f.Step(strings.Fields(hdr))
		lines := []string{hdr}
		steps := 5 + rr.Intn(36)
		for s := 0; s < steps; s++ {
			h := rr.Intn(nh)
			L := int64(len(f.data))
			var l string
			switch k := rr.Intn(100); {
			case k < 22:
				l = fmt.Sprintf("%s %d %s", corr.Pick(rr, []string{"write", "write", "writestring"}), h, corr.Hex(payload(rr, rr.Intn(6))))
				if rr.Chance(15) { // io.Copy into the handle (never empty: an empty copy makes no call at all)
					l = fmt.Sprintf("readfrom %d %s", h, corr.Hex(payload(rr, 1+rr.Intn(6))))
				}
			case k < 38:
				l = fmt.Sprintf("writeat %d %s %d", h, corr.Hex(payload(rr, rr.Intn(6))), offNear(rr, L))
			case k < 52:
				l = fmt.Sprintf("read %d %d", h, rr.Intn(8))
				if rr.Chance(12) {
					l = fmt.Sprintf("copyout %d", h)
				}
			case k < 66:
				l = fmt.Sprintf("readat %d %d %d", h, rr.Intn(8), offNear(rr, L))
			case k < 80:
				l = fmt.Sprintf("seek %d %d %d", h, offNear(rr, L)-int64(rr.Intn(2))*L, rr.Intn(3))
			case k < 90:
				l = fmt.Sprintf("trunc %d %d", h, offNear(rr, L))
			case k < 92 && s > steps/2:
				l = fmt.Sprintf("close %d", h)
			default:
				l = "size"
			}
			f.Step(strings.Fields(l))
			lines = append(lines, l)
		}
		lines = append(lines, "size")
		cases = append(cases, corr.Case{Lines: lines})
	}
	return cases
}

// every (size ≤ 6, off ∈ [−2, 9], len ≤ 4) for each op after each capacity-shaping prefix
func c02Exhaustive(tier string) []corr.Case {
	var cases []corr.Case
	maxSize := 5
	if tier == "thorough" {
		maxSize = 6
	}
	seq := func(n int) []byte {
		b := make([]byte, n)
		for i := range b {
			b[i] = byte(0x11 * (i + 1))
		}
		return b
	}
	for size := 0; size <= maxSize; size++ {
		prefixes := [][]string{
			{fmt.Sprintf("case %s wr", corr.Hex(seq(size)))},                                                 // exact capacity
			{fmt.Sprintf("case %s wr", corr.Hex(seq(size+3))), fmt.Sprintf("trunc 0 %d", size)},              // shrunk: slack capacity holds stale bytes
			{"case - wr", fmt.Sprintf("write 0 %s", corr.Hex(seq(size))), "seek 0 0 0"},                      // append-grown
			{fmt.Sprintf("case %s wr", corr.Hex(seq(size+2))), "trunc 0 0", fmt.Sprintf("trunc 0 %d", size)}, // shrunk then zero-extended
		}
		for _, pre := range prefixes {
			for off := -2; off <= 9; off++ {
				for ln := 0; ln <= 4; ln++ {
					pay := corr.Hex([]byte{0xa1, 0xa2, 0xa3, 0xa4}[:ln])
					ops := [][]string{
						{fmt.Sprintf("writeat 0 %s %d", pay, off)},
						{fmt.Sprintf("seek 0 %d 0", off), fmt.Sprintf("write 0 %s", pay), "seek 0 0 1"},
						{fmt.Sprintf("readat 1 %d %d", ln, off), "seek 1 0 1"},
						{fmt.Sprintf("seek 1 %d 0", off), fmt.Sprintf("read 1 %d", ln), "seek 1 0 1"},
					}
					if ln == 0 {
						ops = append(ops, []string{fmt.Sprintf("trunc 0 %d", off)},
							[]string{fmt.Sprintf("seek 0 %d 2", off)}, []string{"seek 0 2 0", fmt.Sprintf("seek 0 %d 1", off)})
					}
					for _, op := range ops {
						var l []string
						l = append(l, pre...)
						l = append(l, op...)
						l = append(l, "size", "readat 1 16 0", "seek 0 0 1")
						cases = append(cases, corr.Case{Lines: l})
					}
				}
			}
		}
	}
	return cases
}

func c02Corpus() []corr.Case {
	mk := func(l ...string) corr.Case { return corr.Case{Lines: l} }
	return []corr.Case{
		// S1: WriteAt must not move the handle offset
		mk("case - w", "write 0 68656c6c6f", "writeat 0 58 1", "seek 0 0 1", "write 0 59", "readat 0 8 0"),
		// S2: a short positional read reports EOF
		mk("case 0102030405 r", "readat 0 6 0", "readat 0 5 0", "readat 0 3 4"),
		// S3: negative positions
		mk("case 010203 wr", "seek 0 -1 0", "read 0 1", "write 0 09", "seek 1 -5 2", "read 1 2", "readat 1 2 -1", "writeat 0 07 -1"),
		// read-only and closed handles are inert
		mk("case 0102 wr", "write 1 09", "trunc 1 0", "close 0", "write 0 08", "trunc 0 1", "seek 0 0 0", "read 0 1", "readat 1 4 0"),
		// a relative seek that fails leaves the position where it was
		mk("case 01020304 wr", "seek 0 1 0", "seek 0 -3 1", "seek 0 0 1", "read 0 2", "write 0 09", "seek 1 2 0", "seek 1 -5 1", "seek 1 0 1", "read 1 4", "copyout 1", "size"),
		// io.Copy out of a handle: from the position to the end, at the end, beyond the end, closed
		mk("case 0102030405 wr", "seek 1 2 0", "copyout 1", "copyout 1", "read 1 1", "seek 1 9 0", "copyout 1", "copyout 0", "write 0 0a0b", "seek 0 1 0", "copyout 0", "close 1", "copyout 1", "size"),
		// offsets at the top of the int64 range
		mk("case 0102030405 wr", "readat 1 2 9223372036854775806", "readat 1 1 9223372036854775807", "readat 1 4 9223372036854775804", "readat 0 3 9223372036854775805", "readat 1 2 3", "seek 1 9223372036854775807 0", "read 1 1", "seek 1 0 0", "read 1 2", "size"),
		// a handle opened with O_APPEND starts at the end and is an ordinary handle from there on
		mk("case 0102030405 awr", "write 0 0a", "seek 0 1 0", "write 0 0b", "writeat 0 0c0d 0", "seek 0 0 1", "writestring 0 0e", "write 1 0f", "write 0 10", "trunc 1 3", "write 0 11", "readat 2 16 0", "size"),
		// a deep cut of a large file keeps the bytes below the new size; growing again zero-fills
		mk("case 020910171e252c333a41484f565d646b727980878e959ca3aab1b8bfc6cdd4dbe2e9f0f7030a11181f262d343b424950575e656c737a81888f969da4abb2b9c0c7ced5dce3eaf1f8040b121920272e353c434a51585f666d747b828990979ea5acb3bac1c8cfd6dde4ebf2f9050c131a21282f363d444b525960676e757c838a91989fa6adb4bbc2c9d0d7dee5ecf3fa060d141b222930373e454c535a61686f767d848b9299a0a7aeb5bcc3cad1d8dfe6edf4fb070e151c232a31383f464d545b626970777e858c939aa1a8afb6bdc4cbd2d9e0e7eef501080f161d242b323940474e555c636a71787f868d949ba2a9b0b7bec5ccd3dae1e8eff6020910171e252c333a41484f565d646b727980878e959ca3aab1b8bfc6cdd4dbe2e9f0f7030a11181f262d343b424950575e656c737a81888f969da4abb2b9c0c7ced5dce3eaf1f8040b121920272e353c434a51585f666d747b828990979ea5acb3bac1c8cfd6dde4ebf2f9050c131a21282f363d444b525960676e757c838a91989fa6adb4bbc2c9d0d7dee5ecf3fa060d141b222930373e454c535a61686f767d848b9299a0a7aeb5bcc3cad1d8dfe6edf4fb070e151c232a31383f464d545b626970777e858c939aa1a8afb6bdc4cbd2d9e0e7eef501080f161d242b323940474e555c636a71787f868d949ba2a9b0b7bec5ccd3dae1e8eff6020910171e252c333a41484f565d646b727980878e959ca3aab1b8bfc6cdd4dbe2e9f0f7030a11181f262d343b424950575e656c737a81888f969da4abb2b9c0c7ced5dce3eaf1f8040b121920272e353c434a51585f666d747b828990979ea5acb3bac1c8cfd6dde4ebf2f9050c131a21282f363d444b525960676e757c838a91989fa6adb4bbc2c9d0d7dee5ecf3fa060d141b222930373e454c535a61686f767d848b9299a0a7aeb5bcc3cad1d8dfe6edf4fb070e151c232a31383f464d545b626970777e858c939aa1a8afb6bdc4cbd2d9e0e7eef501080f161d242b323940474e555c636a71787f868d949ba2a9b0b7bec5ccd3dae1e8eff6020910171e252c333a41484f565d646b727980878e959ca3aab1b8bfc6cdd4dbe2e9f0f7030a11181f262d343b424950575e656c737a81888f969da4abb2b9c0c7ced5dce3eaf1f8040b121920272e353c434a51585f666d747b828990979ea5acb3bac1c8cfd6dde4ebf2f9050c131a21282f363d444b525960676e757c838a91989fa6adb4bbc2c9d0d7dee5ecf3fa060d141b222930373e454c535a61686f767d848b9299a0a7aeb5bcc3cad1d8dfe6edf4fb070e151c232a31383f464d545b626970777e858c939aa1a8afb6bdc4cbd2d9e0e7eef501080f161d242b323940474e555c636a71787f868d949ba2a9b0b7bec5ccd3dae1e8eff6020910171e252c333a41484f565d646b727980878e959ca3aab1b8bfc6cdd4dbe2e9f0f7030a11181f262d343b424950575e656c737a81888f969da4abb2b9c0c7ced5dce3eaf1f8040b121920272e353c434a51585f666d747b828990979ea5acb3bac1c8cfd6dde4ebf2f9050c131a21282f363d444b525960676e757c838a91989fa6adb4bbc2c9d0d7dee5ecf3fa060d141b222930373e454c535a61686f767d848b9299a0a7aeb5bcc3cad1d8dfe6edf4fb070e151c232a31383f464d545b626970777e858c939aa1a8afb6bdc4cbd2d9e0e7eef501080f161d242b323940474e555c636a71787f868d949ba2a9b0b7bec5ccd3dae1e8eff6020910171e252c333a41484f565d646b727980878e959ca3aab1b8bfc6cdd4dbe2e9f0f7030a11181f262d343b424950575e656c737a81888f969da4abb2b9c0c7ced5dce3eaf1f8040b121920272e353c434a51585f666d747b828990979ea5acb3bac1c8cfd6dde4ebf2f9050c131a21282f363d444b525960676e757c838a91989fa6adb4bbc2c9d0d7dee5ecf3fa060d141b222930373e454c535a61686f767d848b9299a0a7aeb5bcc3cad1d8dfe6edf4fb070e151c232a31383f464d545b626970777e858c939aa1a8afb6bdc4cbd2d9e0e7eef501080f161d242b323940474e555c636a71787f868d949ba2a9b0b7bec5ccd3dae1e8eff6020910171e252c333a41484f565d646b727980878e959ca3aab1b8bfc6cdd4dbe2e9f0f7030a11181f262d343b424950575e656c737a81888f969da4abb2b9c0c7ced5dce3eaf1f8040b121920272e353c434a51585f666d747b828990979ea5acb3bac1c8cfd6dde4ebf2f9050c131a21282f363d444b525960676e757c838a91989fa6adb4bbc2c9d0d7dee5ecf3fa060d141b222930373e454c535a61686f767d848b9299a0a7aeb5bcc3cad1d8dfe6edf4fb070e151c232a31383f464d545b626970777e858c939aa1a8afb6bdc4cbd2d9e0e7eef501080f161d242b323940474e555c636a71787f868d949ba2a9b0b7bec5ccd3dae1e8eff6020910171e252c333a41484f565d646b727980878e959ca3aab1b8bfc6cdd4dbe2e9f0f7030a11181f262d343b424950575e656c737a81888f969da4abb2b9c0c7ced5dce3eaf1f8040b121920272e353c434a51585f666d747b828990979ea5acb3bac1c8cfd6dde4ebf2f9050c131a21282f363d444b525960676e757c838a91989fa6adb4bbc2c9d0d7dee5ecf3fa060d141b222930373e454c535a61686f767d848b9299a0a7aeb5bcc3cad1d8dfe6edf4fb070e151c232a31383f464d545b626970777e858c939aa1a8afb6bdc4cbd2d9e0e7eef501080f161d242b323940474e555c636a71787f868d949ba2a9b0b7bec5ccd3dae1e8eff6020910171e252c333a41484f565d646b727980878e959ca3aab1b8bfc6cdd4dbe2e9f0f7030a11181f262d343b424950575e656c737a81888f969da4abb2b9c0c7ced5dce3eaf1f8040b121920272e353c434a51585f666d747b828990979ea5acb3bac1c8cfd6dde4ebf2f9050c131a21282f363d444b525960676e757c838a91989fa6adb4bbc2c9d0d7dee5ecf3fa060d141b222930373e454c535a61686f767d848b9299a0a7aeb5bcc3cad1d8dfe6edf4fb070e151c232a31383f464d545b626970777e858c939aa1a8afb6bdc4cbd2d9e0e7eef501080f161d242b323940474e555c636a71787f868d949ba2a9b0b7bec5ccd3dae1e8eff6020910171e252c333a41484f565d646b727980878e959ca3aab1b8bfc6cdd4dbe2e9f0f7030a11181f262d343b424950575e656c737a81888f969da4abb2b9c0c7ced5dce3eaf1f8040b121920272e353c434a51585f666d747b828990979ea5acb3bac1c8cfd6dde4ebf2f9050c131a21282f363d444b525960676e757c838a91989fa6adb4bbc2c9d0d7dee5ecf3fa060d141b222930373e454c535a61686f767d848b9299a0a7aeb5bcc3cad1d8dfe6edf4fb070e151c232a31383f464d545b626970777e858c939aa1a8afb6bdc4cbd2d9e0e7eef501080f161d242b323940474e555c636a71787f868d949ba2a9b0b7bec5ccd3dae1e8eff6020910171e252c333a41484f565d646b727980878e959ca3aab1b8bfc6cdd4dbe2e9f0f7030a11181f262d343b424950575e656c737a81888f969da4abb2b9c0c7ced5dce3eaf1f8040b121920272e353c434a51585f666d747b828990979ea5acb3bac1c8cfd6dde4ebf2f9050c131a21282f363d444b525960676e757c838a91989fa6adb4bbc2c9d0d7dee5ecf3fa060d141b222930373e454c535a61686f767d848b9299a0a7aeb5bcc3cad1d8dfe6edf4fb070e151c232a31383f464d545b626970777e858c939aa1a8afb6bdc4cbd2d9e0e7eef501080f161d242b323940474e555c636a71787f868d949ba2a9b0b7bec5ccd3dae1e8eff6020910171e252c333a41484f565d646b727980878e959ca3aab1b8bfc6cdd4dbe2e9f0f7030a11181f262d343b424950575e656c737a81888f969da4abb2b9c0c7ced5dce3eaf1f8040b121920272e353c434a51585f666d747b828990979ea5acb3bac1c8cfd6dde4ebf2f9050c131a21282f363d444b525960676e757c838a91989fa6adb4bbc2c9d0d7dee5ecf3fa060d141b222930373e454c535a61686f767d848b9299a0a7aeb5bcc3cad1d8dfe6edf4fb070e151c232a31383f464d545b626970777e858c939aa1a8afb6bdc4cbd2d9e0e7eef501080f161d242b323940474e555c636a71787f868d949ba2a9b0b7bec5ccd3dae1e8eff6020910171e252c333a41484f565d646b727980878e959ca3aab1b8bfc6cdd4dbe2e9f0f7030a11181f262d343b424950575e656c737a81888f969da4abb2b9c0c7ced5dce3eaf1f8040b121920272e353c434a51585f666d747b828990979ea5acb3bac1c8cfd6dde4ebf2f9050c131a21282f363d444b525960676e757c838a91989fa6adb4bbc2c9d0d7dee5ecf3fa060d141b222930373e454c535a61686f767d848b9299a0a7aeb5bcc3cad1d8dfe6edf4fb070e151c232a31383f464d545b626970777e858c939aa1a8afb6bdc4cbd2d9e0e7eef501080f161d242b323940474e555c636a71787f868d949ba2a9b0b7bec5ccd3dae1e8eff6020910171e252c333a41484f565d646b727980878e959ca3aab1b8bfc6cdd4dbe2e9f0f7030a11181f262d343b424950575e656c737a81888f969da4abb2b9c0c7ced5dce3eaf1f8040b121920272e353c434a51585f666d747b828990979ea5acb3bac1c8cfd6dde4ebf2f9050c131a21282f363d444b525960676e757c838a91989fa6adb4bbc2c9d0d7dee5ecf3fa060d141b222930373e454c535a61686f767d848b9299a0a7aeb5bcc3cad1d8dfe6edf4fb070e151c232a31383f464d545b626970777e858c939aa1a8afb6bdc4cbd2d9e0e7eef501080f161d242b323940474e555c636a71787f868d949ba2a9b0b7bec5ccd3dae1e8eff6020910171e252c333a41484f565d646b727980878e959ca3aab1b8bfc6cdd4dbe2e9f0f7030a11181f262d343b424950575e656c737a81888f969da4abb2b9c0c7ced5dce3eaf1f8040b121920272e353c434a51585f666d747b828990979ea5acb3bac1c8cfd6dde4ebf2f9050c131a21282f363d444b525960676e757c838a91989fa6adb4bbc2c9d0d7dee5ecf3fa060d141b222930373e454c535a61686f767d848b9299a0a7aeb5bcc3cad1d8dfe6edf4fb070e151c232a31383f464d545b626970777e858c939aa1a8afb6bdc4cbd2d9e0e7eef501080f161d242b323940474e555c636a71787f868d949ba2a9b0b7bec5ccd3dae1e8eff6020910171e252c333a41484f565d646b727980878e959ca3aab1b8bfc6cdd4dbe2e9f0f7030a11181f262d343b424950575e656c737a81888f969da4abb2b9c0c7ced5dce3eaf1f8040b121920272e353c434a51585f666d747b828990979ea5acb3bac1c8cfd6dde4ebf2f9050c131a21282f363d444b525960676e757c838a91989fa6adb4bbc2c9d0d7dee5ecf3fa060d141b222930373e454c535a61686f767d848b9299a0a7aeb5bcc3cad1d8dfe6edf4fb070e151c232a31383f464d545b626970777e858c939aa1a8afb6bdc4cbd2d9e0e7eef501080f161d242b323940474e555c636a71787f868d949ba2a9b0b7bec5ccd3dae1e8eff6020910171e252c333a41484f565d646b727980878e959ca3aab1b8bfc6cdd4dbe2e9f0f7030a11181f262d343b424950575e656c737a81888f969da4abb2b9c0c7ced5dce3eaf1f8040b121920272e353c434a51585f666d747b828990979ea5acb3bac1c8cfd6dde4ebf2f9050c131a21282f363d444b525960676e757c838a91989fa6adb4bbc2c9d0d7dee5ecf3fa060d141b222930373e454c535a61686f767d848b9299a0a7aeb5bcc3cad1d8dfe6edf4fb070e151c232a31383f464d545b626970777e858c939aa1a8afb6bdc4cbd2d9e0e7eef501080f161d242b323940474e555c636a71787f868d949ba2a9b0b7bec5ccd3dae1e8eff6020910171e252c333a41484f565d646b727980878e959ca3aab1b8bfc6cdd4dbe2e9f0f7030a11181f262d343b424950575e656c737a81888f969da4abb2b9c0c7ced5dce3eaf1f8040b121920272e353c434a51585f666d747b828990979ea5acb3bac1c8cfd6dde4ebf2f9050c131a21282f363d444b525960676e757c838a91989fa6adb4bbc2c9d0d7dee5ecf3fa060d141b222930373e454c535a61686f767d848b9299a0a7aeb5bcc3cad1d8dfe6edf4fb070e151c232a31383f464d545b626970777e858c939aa1a8afb6bdc4cbd2d9e0e7eef501080f161d242b323940474e555c636a71787f868d949ba2a9b0b7bec5ccd3dae1e8eff6020910171e252c333a41484f565d646b727980878e959ca3aab1b8bfc6cdd4dbe2e9f0f7030a11181f262d343b424950575e656c737a81888f969da4abb2b9c0c7ced5dce3eaf1f8040b121920272e353c434a51585f666d747b828990979ea5acb3bac1c8cfd6dde4ebf2f9050c131a21282f363d444b525960676e757c838a91989fa6adb4bbc2c9d0d7dee5ecf3fa060d141b222930373e454c535a61686f767d848b9299a0a7aeb5bcc3cad1d8dfe6edf4fb070e151c232a31383f464d545b626970777e858c939aa1a8afb6bdc4cbd2d9e0e7eef501080f161d242b323940474e555c636a71787f868d949ba2a9b0b7bec5ccd3dae1e8eff6020910171e252c333a41484f565d646b727980878e959ca3aab1b8bfc6cdd4dbe2e9f0f7030a11181f262d343b424950575e656c737a81888f969da4abb2b9c0c7ced5dce3eaf1f8040b121920272e353c434a51585f666d747b828990979ea5acb3bac1c8cfd6dde4ebf2f9050c131a21282f363d444b525960676e757c838a91989fa6adb4bbc2c9d0d7dee5ecf3fa060d141b222930373e454c535a61686f767d848b9299a0a7aeb5bcc3cad1d8dfe6edf4fb070e151c232a31383f464d545b626970777e858c939aa1a8afb6bdc4cbd2d9e0e7eef501080f161d242b323940474e555c636a71787f868d949ba2a9b0b7bec5ccd3dae1e8eff6020910171e252c333a41484f565d646b727980878e959ca3aab1b8bfc6cdd4dbe2e9f0f7030a11181f262d343b424950575e656c737a81888f969da4abb2b9c0c7ced5dce3eaf1f8040b121920272e353c434a51585f666d747b828990979ea5acb3bac1c8cfd6dde4ebf2f9050c131a21282f363d444b525960676e757c838a91989fa6adb4bbc2c9d0d7dee5ecf3fa060d141b222930373e454c535a61686f767d848b9299a0a7aeb5bcc3cad1d8dfe6edf4fb070e151c232a31383f464d545b626970777e858c939aa1a8afb6bdc4cbd2d9e0e7eef501080f161d242b323940474e555c636a71787f868d949ba2a9b0b7bec5ccd3dae1e8eff6020910171e252c333a41484f565d646b727980878e959ca3aab1b8bfc6cdd4dbe2e9f0f7030a11181f262d343b424950575e656c737a81888f969da4abb2b9c0c7ced5dce3eaf1f8040b121920272e353c434a51585f666d747b828990979ea5acb3bac1c8cfd6dde4ebf2f9050c131a21282f363d444b525960676e757c838a91989fa6adb4bbc2c9d0d7dee5ecf3fa060d141b222930373e454c535a61686f767d848b9299a0a7aeb5bcc3cad1d8dfe6edf4fb070e151c232a31383f464d545b626970777e858c939aa1a8afb6bdc4cbd2d9e0e7eef501080f161d242b323940474e555c636a71787f868d949ba2a9b0b7bec5ccd3dae1e8eff6020910171e252c333a41484f565d646b727980878e959ca3aab1b8bfc6cdd4dbe2e9f0f7030a11181f262d343b424950575e656c737a81888f969da4abb2b9c0c7ced5dce3eaf1f8040b121920272e353c434a51585f666d747b828990979ea5acb3bac1c8cfd6dde4ebf2f9050c131a21282f363d444b525960676e757c838a91989fa6adb4bbc2c9d0d7dee5ecf3fa060d141b222930373e454c535a61686f767d848b9299a0a7aeb5bcc3cad1d8dfe6edf4fb070e151c232a31383f464d545b626970777e858c939aa1a8afb6bdc4cbd2d9e0e7eef501080f161d242b323940474e555c636a71787f868d949ba2a9b0b7bec5ccd3dae1e8eff6020910171e252c333a41484f565d646b727980878e959ca3aab1b8bfc6cdd4dbe2e9f0f7030a11181f262d343b424950575e656c737a81888f969da4abb2b9c0c7ced5dce3eaf1f8040b121920272e353c434a51585f666d747b828990979ea5acb3bac1c8cfd6dde4ebf2f9050c131a21282f363d444b525960676e757c838a91989fa6adb4bbc2c9d0d7dee5ecf3fa060d141b222930373e454c535a61686f767d848b9299a0a7aeb5bcc3cad1d8dfe6edf4fb070e151c232a31383f464d545b626970777e858c939aa1a8afb6bdc4cbd2d9e0e7eef501080f161d242b323940474e555c636a71787f868d949ba2a9b0b7bec5ccd3dae1e8eff6020910171e252c333a41484f565d646b727980878e959ca3aab1b8bfc6cdd4dbe2e9f0f7030a11181f262d343b424950575e656c737a81888f969da4abb2b9c0c7ced5dce3eaf1f8040b121920272e353c434a51585f666d747b828990979ea5acb3bac1c8cfd6dde4ebf2f9050c131a21282f363d444b525960676e757c838a91989fa6adb4bbc2c9d0d7dee5ecf3fa060d141b222930373e454c535a61686f767d848b9299a0a7aeb5bcc3cad1d8dfe6edf4fb070e151c232a31383f464d545b626970777e858c939aa1a8afb6bdc4cbd2d9e0e7eef501080f161d242b323940474e555c636a71787f868d949ba2a9b0b7bec5ccd3dae1e8eff6020910171e252c333a41484f565d646b727980878e959ca3aab1b8bfc6cdd4dbe2e9f0f7030a11181f262d343b424950575e656c737a81888f969da4abb2b9c0c7ced5dce3eaf1f8040b121920272e353c434a51585f666d747b828990979ea5acb3bac1c8cfd6dde4ebf2f9050c131a21282f363d444b525960676e757c838a91989fa6adb4bbc2c9d0d7dee5ecf3fa060d141b222930373e454c535a61686f767d848b9299a0a7aeb5bcc3cad1d8dfe6edf4fb070e151c232a31383f464d545b626970777e858c939aa1a8afb6bdc4cbd2d9e0e7eef501080f161d242b323940474e555c636a71787f868d949ba2a9b0b7bec5ccd3dae1e8eff6020910171e252c333a41484f565d646b727980878e959ca3aab1b8bfc6cdd4dbe2e9f0f7030a11181f262d343b424950575e656c737a81888f969da4abb2b9c0c7ced5dce3eaf1f8040b121920272e353c434a51585f666d747b828990979ea5acb3bac1c8cfd6dde4ebf2f9050c131a21282f363d444b525960676e757c838a91989fa6adb4bbc2c9d0d7dee5ecf3fa060d141b222930373e454c535a61686f767d848b9299a0a7aeb5bcc3cad1d8dfe6edf4fb070e151c232a31383f464d545b626970777e858c939aa1a8afb6bdc4cbd2d9e0e7eef501080f161d242b323940474e555c636a71787f868d949ba2a9b0b7bec5ccd3dae1e8eff6020910171e252c333a41484f565d646b727980878e959ca3aab1b8bfc6cdd4dbe2e9f0f7030a11181f262d343b424950575e656c737a81888f969da4abb2b9c0c7ced5dce3eaf1f8040b121920272e353c434a51585f666d747b828990979ea5acb3bac1c8cfd6dde4ebf2f9050c131a21282f363d444b525960676e757c838a91989fa6adb4bbc2c9d0d7dee5ecf3fa060d141b222930373e454c535a61686f767d848b9299a0a7aeb5bcc3cad1d8dfe6edf4fb070e151c232a31383f464d545b626970777e858c939aa1a8afb6bdc4cbd2d9e0e7eef501080f161d242b323940474e555c636a71787f868d949ba2a9b0b7bec5ccd3dae1e8eff6020910171e252c333a41484f565d646b727980878e959ca3aab1b8bfc6cdd4dbe2e9f0f7030a11181f262d343b424950575e656c737a81888f969da4abb2b9c0c7ced5dce3eaf1f8040b121920272e353c434a51585f666d747b828990979ea5acb3bac1c8cfd6dde4ebf2f9050c131a21282f363d444b525960676e757c838a91989fa6adb4bbc2c9d0d7dee5ecf3fa060d141b222930373e454c535a61686f767d848b9299a0a7aeb5bcc3cad1d8dfe6edf4fb070e151c232a31383f464d545b626970777e858c939aa1a8afb6bdc4cbd2d9e0e7eef501080f161d242b323940474e555c636a71787f868d949ba2a9b0b7bec5ccd3dae1e8eff6020910171e252c333a41484f565d646b727980878e959ca3aab1b8bfc6cdd4dbe2e9f0f7030a11181f262d343b424950575e656c737a81888f969da4abb2b9c0c7ced5dce3eaf1f8040b121920272e353c434a51585f666d747b828990979ea5acb3bac1c8cfd6dde4ebf2f9050c131a21282f363d444b525960676e757c838a91989fa6adb4bbc2c9d0d7dee5ecf3fa060d141b222930373e454c535a61686f767d848b9299a0a7aeb5bcc3cad1d8dfe6edf4fb070e151c232a31383f464d545b626970777e858c939aa1a8afb6bdc4cbd2d9e0e7eef501080f161d242b323940474e555c636a71787f868d949ba2a9b0b7bec5ccd3dae1e8eff6020910171e252c333a41484f565d646b727980878e959ca3aab1b8bfc6cdd4dbe2e9f0f7030a11181f262d343b424950575e656c737a81888f969da4abb2b9c0c7ced5dce3eaf1f8040b121920272e353c434a51585f666d747b828990979ea5acb3bac1c8cfd6dde4ebf2f9050c131a21282f363d444b525960676e757c838a91989fa6adb4bbc2c9d0d7dee5ecf3fa060d141b222930373e454c535a61686f767d848b9299a0a7aeb5bcc3cad1d8dfe6edf4fb070e151c232a31383f464d545b626970777e858c939aa1a8afb6bdc4cbd2d9e0e7eef501080f161d242b323940474e555c636a71787f868d949ba2a9b0b7bec5ccd3dae1e8eff6020910171e252c333a41484f565d646b727980878e959ca3aab1b8bfc6cdd4dbe2e9f0f7030a11181f262d343b424950575e656c737a81888f969da4abb2b9c0c7ced5dce3eaf1f8040b121920272e353c434a51585f666d747b828990979ea5acb3bac1c8cfd6dde4ebf2f9050c131a21282f363d444b525960676e757c838a91989fa6adb4bbc2c9d0d7dee5ecf3fa060d141b222930373e454c535a61686f767d848b9299a0a7aeb5bcc3cad1d8dfe6edf4fb070e151c232a31383f464d545b626970777e858c939aa1a8afb6bdc4cbd2d9e0e7eef501080f161d242b323940474e555c636a71787f868d949ba2a9b0b7bec5ccd3dae1e8eff6020910171e252c333a41484f565d646b727980878e959ca3aab1b8bfc6cdd4dbe2e9f0f7030a11181f262d343b424950575e656c737a81888f969da4abb2b9c0c7ced5dce3eaf1f8040b121920272e353c434a51585f666d747b828990979ea5acb3bac1c8cfd6dde4ebf2f9050c131a21282f363d444b525960676e757c838a91989fa6adb4bbc2c9d0d7dee5ecf3fa060d141b222930373e454c535a61686f wr", "trunc 0 100", "readat 1 16 90", "readat 1 8 0", "size", "trunc 0 5000", "readat 1 12 96", "trunc 0 4097", "trunc 0 3", "readat 1 8 0", "write 0 0a0b", "readat 1 8 0", "size"),
		// zero-length operations beyond EOF
		mk("case 01 wr", "readat 1 0 5", "seek 1 3 0", "read 1 0", "writeat 0 - 4", "size"),
	}
}

func c02Signature(c corr.Case, impl []string, what string, line int) string {
	if line >= 0 && line < len(c.Lines) {
		t := strings.Fields(c.Lines[line])
		return "C02:" + t[0] + ":" + strings.SplitN(what, ":", 2)[0]
	}
	return "C02:?"
}

func C02() *corr.Engine {
	return &corr.Engine{
		ID: "C02", DriverEngine: "memfile",
		Corpus: c02Corpus, Exhaustive: c02Exhaustive, Random: c02Random,
		RunImpl: c02RunImpl, Oracle: c02Oracle, NonTrivial: c02NonTrivial,
		Rule:      "sequences over 1-4 handles on one mem.FileData; non-trivial = at least 2 of {gap fill, mid overwrite with tail kept, truncate shrink, truncate extend, read across EOF} and at least 2 handles; distinct by script hash",
		Signature: c02Signature, Classify: c02Classify,
	}
}
