package engines

import (
	"bytes"
	"fmt"
	"io"
	"os"
	"path/filepath"
	"sort"
	"strings"
	"time"

	"github.com/spf13/afero"

	"verifharness/corr"
)

// ---------------------------------------------------------------------------------------
// C10 — CacheOnReadFs serves base content and honours its cache duration.
// C11 — writes through CacheOnReadFs keep base and cache identical.
// One script engine (`cachefs`): case cache-mem <dur-seconds>; `b.<op>` / `l.<op>` act on the base
// / cache layer directly; `readthrough p` reads a file through the cache and is judged by the rule
// of the property, evaluated on the directly inspected layers.  Times in `chtimes` lines are
// seconds relative to the start of the case (ages are produced by back-dating, not by sleeping).
// ---------------------------------------------------------------------------------------

type cacheStack struct {
	fs, base, layer afero.Fs
	dur             time.Duration
}

func cacheNew(t []string) *cacheStack {
	b, l := afero.NewMemMapFs(), afero.NewMemMapFs()
	d := time.Duration(atoi64(t[2])) * time.Second
	if t[1] == "cache-mem-ms" { // a cache duration that is not a whole number of seconds
		d = time.Duration(atoi64(t[2])) * time.Millisecond
	}
	if t[1] == "cache-robase" {
		// the base refuses every mutation (the configuration the type's documentation recommends): a call
		// that fails in the base must leave the cache as it was
		return &cacheStack{afero.NewCacheOnReadFs(afero.NewReadOnlyFs(b), l, d), b, l, d}
	}
	return &cacheStack{afero.NewCacheOnReadFs(b, l, d), b, l, d}
}

// the rule of C10 for one file, from the layers as they are now
func (st *cacheStack) predict(p string) (class string, want []byte, ok bool) {
	bfi, berr := st.base.Stat(p)
	lfi, lerr := st.layer.Stat(p)
	bdata, _ := afero.ReadFile(st.base, p)
	ldata, _ := afero.ReadFile(st.layer, p)
	switch {
	case lerr != nil && berr != nil:
		return "absent", nil, false
	case lerr != nil:
		return "miss", bdata, true
	case st.dur == 0:
		return "hit", ldata, true
	case lfi.ModTime().Add(st.dur).Before(time.Now()):
		if berr != nil {
			return "local", ldata, true
		}
		if bfi.ModTime().After(lfi.ModTime()) {
			return "stale", bdata, true
		}
		return "hit", ldata, true
	default:
		return "hit", ldata, true
	}
}

func coherence(base, layer afero.Fs) string {
	for _, n := range SnapshotMem(layer) {
		if n.Dir {
			continue
		}
		if bfi, err := base.Stat(n.Path); err != nil || bfi.IsDir() {
			return fmt.Sprintf("%s is a regular file in the cache layer but not in the base", n.Path)
		}
		b, err := afero.ReadFile(base, n.Path)
		if err != nil {
			return fmt.Sprintf("%s is in the cache layer but not in the base", n.Path)
		}
		if !bytes.Equal(b, n.Data) {
			return fmt.Sprintf("%s: cache holds %x, base holds %x", n.Path, n.Data, b)
		}
	}
	return ""
}

func cacheRunImpl(c corr.Case) []string {
	var st *cacheStack
	var r *Runner
	direct := map[int]bool{}
	out := make([]string, 0, len(c.Lines))
	for _, line := range c.Lines {
		t := strings.Fields(line)
		out = append(out, guard(func() string {
			switch t[0] {
			case "deep-osl":
				return deepOSL(t[1])
			case "case":
				if r != nil {
					r.CloseAll()
				}
				st = cacheNew(t)
				r = NewRunner(st.fs)
				r.T0 = time.Now()
				r.Alt = map[string]afero.Fs{"b": st.base, "l": st.layer}
				direct = map[int]bool{}
				return "case"
			case "snapshot":
				return "snap B{" + SnapLine(SnapshotMem(st.base)) + "} L{" + SnapLine(SnapshotMem(st.layer)) + "}"
			case "readthrough", "readthroughof":
				p := string(corr.UnHex(t[1]))
				class, want, ok := st.predict(p)
				bfiBefore, _ := st.base.Stat(p)
				othersBefore := map[string]string{} // the cached copies of every OTHER file: a read must leave them alone
				for _, n := range SnapshotMem(st.layer) {
					if !n.Dir && n.Path != filepath.Clean(p) {
						othersBefore[n.Path] = fmt.Sprintf("%x|%d", n.Data, n.MTime)
					}
				}
				lfiBefore, _ := st.layer.Stat(p)
				var lmBefore time.Time
				if lfiBefore != nil {
					lmBefore = lfiBefore.ModTime()
				}
				var got []byte
				var err error
				if t[0] == "readthroughof" { // the same read through OpenFile(O_RDONLY), which has its own routing
					var f afero.File
					if f, err = st.fs.OpenFile(p, os.O_RDONLY, 0); err == nil {
						got, err = io.ReadAll(f)
						f.Close()
					}
				} else {
					got, err = afero.ReadFile(st.fs, p)
				}
				if !ok {
					if err == nil {
						return "rd fail: a file absent from both layers was read"
					}
					return "rd absent"
				}
				if err != nil {
					return "rd fail: " + ErrClass(err)
				}
				if !bytes.Equal(got, want) {
					return fmt.Sprintf("rd fail(%s): served %x, the rule gives %x", class, got, want)
				}
				after := map[string]string{}
				for _, n := range SnapshotMem(st.layer) {
					if !n.Dir {
						after[n.Path] = fmt.Sprintf("%x|%d", n.Data, n.MTime)
					}
				}
				for q, v := range othersBefore {
					if after[q] != v {
						return fmt.Sprintf("rd fail(%s): reading %s changed or dropped the cached copy of %s", class, p, q)
					}
				}
				if class == "miss" || class == "stale" {
					// a byte-identical copy with the base's modification time is left in the cache layer
					ld, lerr := afero.ReadFile(st.layer, p)
					lfi, _ := st.layer.Stat(p)
					if lerr != nil || !bytes.Equal(ld, want) {
						return "rd fail(" + class + "): the cache layer does not hold an identical copy afterwards"
					}
					if bfiBefore != nil && !lfi.ModTime().Equal(bfiBefore.ModTime()) {
						return "rd fail(" + class + "): the cached copy does not carry the base's modification time"
					}
				}
				if class == "hit" && lfiBefore != nil {
					// serving a cached file leaves the cached copy as it is: its age keeps counting from the copy
					if lfi, err := st.layer.Stat(p); err == nil && !lfi.ModTime().Equal(lmBefore) {
						return "rd fail(hit): serving the cached copy changed its modification time (the cache period must run from the copy, with the base's time)"
					}
				}
				return "rd ok " + class
			case "cohere": // C11: final check — every base file reads through the cache as the base holds it
				for _, n := range SnapshotMem(st.base) {
					if n.Dir {
						continue
					}
					got, err := afero.ReadFile(st.fs, n.Path)
					if err != nil || !bytes.Equal(got, n.Data) {
						return fmt.Sprintf("cohere fail: %s reads %x through the cache, base holds %x", n.Path, got, n.Data)
					}
				}
				return "cohere ok"
			}
			if strings.HasSuffix(t[0], "chtimesms") { // modification time in milliseconds relative to the case's start
				fs := st.fs
				if strings.HasPrefix(t[0], "b.") {
					fs = st.base
				} else if strings.HasPrefix(t[0], "l.") {
					fs = st.layer
				}
				tm := r.T0.Add(time.Duration(atoi64(t[2])) * time.Millisecond)
				return fsErr(fs.Chtimes(string(corr.UnHex(t[1])), tm, tm))
			}
			if strings.HasPrefix(t[0], "b.") || strings.HasPrefix(t[0], "l.") {
				res := r.Exec(t)
				if strings.HasPrefix(res, "h=") {
					direct[len(r.H)-1] = true
				}
				return res
			}
			if strings.HasPrefix(t[0], "h.") && direct[atoi(t[1])] {
				return r.Exec(t) + " #DIRECT"
			}
			res := r.Exec(t)
			note := ""
			if d := coherence(st.base, st.layer); d != "" {
				note += " #INCOHERENT(" + d + ")"
			}
			return res + note
		}))
	}
	return out
}

func c10Oracle(c corr.Case, impl []string) (string, int) {
	for i, line := range c.Lines {
		t := strings.Fields(line)
		if impl[i] == "panic" {
			return "call panics: " + t[0], i
		}
		if strings.HasPrefix(t[0], "readthrough") && strings.HasPrefix(impl[i], "rd fail") {
			return impl[i], i
		}
		if t[0] == "deep-osl" && strings.HasPrefix(impl[i], "fail") {
			return impl[i], i
		}
	}
	return "", -1
}

func c11Oracle(c corr.Case, impl []string) (string, int) {
	for i, line := range c.Lines {
		t := strings.Fields(line)
		if impl[i] == "panic" {
			return "call panics: " + t[0], i
		}
		if k := strings.Index(impl[i], "#INCOHERENT"); k >= 0 {
			return t[0] + " through the caching filesystem: " + impl[i][k:], i
		}
		if t[0] == "deep-osl" && strings.HasPrefix(impl[i], "fail") {
			return impl[i], i
		}
		if strings.HasPrefix(impl[i], "cohere fail") {
			return impl[i], i
		}
	}
	return "", -1
}

// ---- C10 generators ----

// (siblings whose names differ by a suffix a temporary file might be given)
var c10Files = []string{"/f", "/d/g", "/d/e/h", "/d/g.tmp", "/d/g.partial", "/d/g~"}

func c10Exhaustive(tier string) []corr.Case {
	h := corr.HexS
	var cases []corr.Case
	// all orderings of {cache.mtime, cache.mtime+dur, now, base.mtime}: offsets (seconds, relative to now = 0)
	// with dur = 3600: cache.mtime ∈ {-7200 (expired), -1800 (fresh)}, base.mtime ∈ {older, between, newer than cache, newer than now}
	durs := []int{0, 3600}
	cacheTimes := []int{-7200, -3700, -3500, -1800, -10}
	baseTimes := []int{-9000, -7201, -7199, -3600, -1801, -1799, -5, 100}
	sizes := []int{0, 1, 5, 32767, 32768, 32769, 100000}
	if tier != "thorough" {
		sizes = []int{0, 5, 32769}
	}
	for _, dur := range durs {
		for _, p := range c10Files {
			for _, size := range sizes {
				for _, ct := range cacheTimes {
					for _, bt := range baseTimes {
						if size > 5 && (ct != -7200 && ct != -1800 || bt != -9000 && bt != -5) {
							continue // large payloads only at the corners
						}
						old, nw := genBytes(size, 1), genBytes(size+1, 2)
						l := []string{fmt.Sprintf("case cache-mem %d", dur),
							"b.mkdirall " + h(filepath.Dir(p)) + " 493", "b.create " + h(p), "h.write 0 " + corr.Hex(old), "h.close 0",
							fmt.Sprintf("b.chtimes %s %d", h(p), ct),
							"readthrough " + h(p), // first read: miss, leaves a copy stamped ct
							// the base changes directly
							"b.openfile " + h(p) + " 514 420", "h.write 1 " + corr.Hex(nw), "h.close 1",
							fmt.Sprintf("b.chtimes %s %d", h(p), bt),
							"readthrough " + h(p), "readthrough " + h(p), "stat " + h(p), "snapshot"}
						cases = append(cases, corr.Case{Lines: l})
					}
				}
			}
		}
	}
	// a cache layer that keeps real directories, files several directories deep
	cases = append(cases, corr.Case{Lines: []string{"case cache-mem 0", "deep-osl cache0", "deep-osl cache1h"}})
	// cache times at the top of time.Duration's range (250 years; the largest whole number of seconds): nothing ever expires
	for _, dur := range []int{7884000000, 9223372036} {
		for _, ct := range []int{-7200, -10, -400000000} {
			for _, bt := range []int{-9000, -5, 100} {
				p := c10Files[0]
				old, nw := genBytes(5, 1), genBytes(6, 2)
				cases = append(cases, corr.Case{Lines: []string{fmt.Sprintf("case cache-mem %d", dur),
					"b.mkdirall " + h(filepath.Dir(p)) + " 493", "b.create " + h(p), "h.write 0 " + corr.Hex(old), "h.close 0",
					fmt.Sprintf("b.chtimes %s %d", h(p), ct), "readthrough " + h(p),
					"b.openfile " + h(p) + " 514 420", "h.write 1 " + corr.Hex(nw), "h.close 1", fmt.Sprintf("b.chtimes %s %d", h(p), bt),
					"readthrough " + h(p), "readthroughof " + h(p), "stat " + h(p), "snapshot"}})
			}
		}
	}
	// modification times less than a second apart: "newer" is decided on the full time stamps. The cached
	// copy (stamped ct ms) is expired; the base is rewritten and stamped d ms later / earlier.
	for _, ct := range []int{-7200000, -7200400, -3600001, -3999999} {
		for _, d := range []int{1, 7, 300, 999, 1000, -1, -300, 0} {
			old, nw := genBytes(5, 1), genBytes(6, 2)
			p := c10Files[0]
			l := []string{"case cache-mem 3600",
				"b.mkdirall " + h(filepath.Dir(p)) + " 493", "b.create " + h(p), "h.write 0 " + corr.Hex(old), "h.close 0",
				fmt.Sprintf("b.chtimesms %s %d", h(p), ct),
				"readthrough " + h(p),
				"b.openfile " + h(p) + " 514 420", "h.write 1 " + corr.Hex(nw), "h.close 1",
				fmt.Sprintf("b.chtimesms %s %d", h(p), ct+d),
				"readthrough " + h(p), "readthrough " + h(p), "snapshot"}
			cases = append(cases, corr.Case{Lines: l})
		}
	}
	// cache durations that are not whole seconds (0.7 s, 1.9 s, 2.5 s): a copy younger than the duration is served, an
	// older one with a newer base is refreshed — ages are at least 600 ms away from the boundary (the clock is the real one)
	for _, c := range []struct{ durms, copyAge int }{{700, -100}, {700, -1500}, {1900, -1200}, {1900, -2600}, {2500, -1800}, {2500, -3200}} {
		old, nw := genBytes(5, 1), genBytes(7, 2)
		p := c10Files[0]
		l := []string{fmt.Sprintf("case cache-mem-ms %d", c.durms),
			"b.mkdirall " + h(filepath.Dir(p)) + " 493", "b.create " + h(p), "h.write 0 " + corr.Hex(old), "h.close 0",
			fmt.Sprintf("b.chtimesms %s %d", h(p), c.copyAge),
			"readthrough " + h(p), // miss: the copy is stamped with copyAge
			"b.openfile " + h(p) + " 514 420", "h.write 1 " + corr.Hex(nw), "h.close 1",
			fmt.Sprintf("b.chtimesms %s %d", h(p), -50), // the base is newer than the copy
			"readthrough " + h(p), "readthroughof " + h(p), "snapshot"}
		cases = append(cases, corr.Case{Lines: l})
	}
	// two siblings whose names differ by a temporary-file suffix: caching one must not disturb the cached copy of the other
	for _, dur := range durs {
		for _, sfx := range []string{".tmp", ".partial", "~", ".bak", ".new"} {
			for _, firstA := range []bool{true, false} {
				a, b := "/d/g", "/d/g"+sfx
				first, second := b, a
				if firstA {
					first, second = a, b
				}
				l := []string{fmt.Sprintf("case cache-mem %d", dur), "b.mkdirall " + h("/d") + " 493",
					"b.create " + h(a), "h.write 0 6161616161", "h.close 0", "b.create " + h(b), "h.write 1 62626262", "h.close 1",
					"b.chtimes " + h(a) + " -9000", "b.chtimes " + h(b) + " -9000",
					"readthrough " + h(first), "readthrough " + h(second),
					"b.openfile " + h(first) + " 514 420", "h.write 2 6e6577", "h.close 2", "b.chtimes " + h(first) + " -100",
					"readthrough " + h(first), "readthrough " + h(second), "snapshot"}
				cases = append(cases, corr.Case{Lines: l})
			}
		}
	}
	// directories are never copied; listing through the cache
	for _, dur := range durs {
		l := []string{fmt.Sprintf("case cache-mem %d", dur), "b.mkdirall " + h("/d/e") + " 493", "b.create " + h("/d/g"), "h.write 0 31", "h.close 0",
			"open " + h("/d"), "h.readdirnames 1 -1", "stat " + h("/d"), "readthrough " + h("/d/g"), "open " + h("/d"), "h.readdirnames 2 -1", "h.readdirnames 2 -1", "snapshot"}
		cases = append(cases, corr.Case{Lines: l})
	}
	// every case once more with the reads going through OpenFile(O_RDONLY) instead of Open
	for _, c := range append([]corr.Case{}, cases...) {
		var l []string
		changed := false
		for _, x := range c.Lines {
			if strings.HasPrefix(x, "readthrough ") {
				x = "readthroughof " + strings.TrimPrefix(x, "readthrough ")
				changed = true
			}
			l = append(l, x)
		}
		if changed {
			cases = append(cases, corr.Case{Lines: l})
		}
	}
	return cases
}

func c10Random(r *corr.Rand, tier string) []corr.Case {
	n := 300
	if tier == "thorough" {
		n = 15000
	}
	h := corr.HexS
	var cases []corr.Case
	for i := 0; i < n; i++ {
		rr := r.Fork()
		dur := corr.Pick(rr, []int{0, 3600})
		l := []string{fmt.Sprintf("case cache-mem %d", dur), "b.mkdirall " + h("/d/e") + " 493"}
		nh := 0
		for k := 0; k < 6+rr.Intn(20); k++ {
			p := corr.Pick(rr, c10Files)
			switch q := rr.Intn(100); {
			case q < 30: // direct base edit
				l = append(l, "b.openfile "+h(p)+" 578 420", fmt.Sprintf("h.write %d %s", nh, corr.Hex(payload(rr, rr.Intn(9)))), fmt.Sprintf("h.close %d", nh),
					fmt.Sprintf("b.chtimes %s %d", h(p), corr.Pick(rr, []int{-9000, -7201, -3601, -1000, -3, 50})))
				nh++
				if rr.Chance(25) {
					l[len(l)-1] = fmt.Sprintf("b.chtimesms %s %d", h(p), corr.Pick(rr, []int{-8000000, -3700000, -3500000})+corr.Pick(rr, []int{1, 250, 999, -1, -500}))
				}
			case q < 40: // age the cached copy
				l = append(l, fmt.Sprintf("l.chtimes %s %d", h(p), corr.Pick(rr, []int{-8000, -3700, -3500, -20})))
			case q < 45:
				l = append(l, "b.remove "+h(p))
			case q < 85:
				l = append(l, corr.Pick(rr, []string{"readthrough ", "readthrough ", "readthroughof "})+h(p))
			case q < 92:
				l = append(l, "stat "+h(p))
			default:
				l = append(l, "open "+h("/d"), fmt.Sprintf("h.readdirnames %d -1", nh))
				nh++
			}
		}
		l = append(l, "snapshot")
		cases = append(cases, corr.Case{Lines: l})
	}
	return cases
}

func c10NonTrivial(c corr.Case, impl []string) bool {
	hit, stale, miss := false, false, false
	for i, l := range c.Lines {
		if strings.HasPrefix(l, "readthrough") {
			switch {
			case strings.HasSuffix(impl[i], "hit"):
				hit = true
			case strings.HasSuffix(impl[i], "stale"):
				stale = true
			case strings.HasSuffix(impl[i], "miss"):
				miss = true
			}
		}
	}
	return miss && hit || stale
}

func cacheClassify(c corr.Case, impl []string, hist map[string]int) {
	for i, l := range c.Lines {
		t := strings.Fields(l)
		hist["op:"+t[0]]++
		if t[0] == "case" {
			hist["dur:"+t[2]]++
		}
		if strings.HasPrefix(t[0], "readthrough") {
			hist[strings.Join(strings.Fields(impl[i])[:2], " ")+" "+strings.Fields(impl[i])[len(strings.Fields(impl[i]))-1]]++
		}
		res := cowStrip(impl[i])
		if strings.HasPrefix(res, "err:") {
			hist[res]++
		}
	}
}

func cacheSig(id string) func(c corr.Case, impl []string, what string, line int) string {
	return func(c corr.Case, impl []string, what string, line int) string {
		if line < 0 || line >= len(c.Lines) {
			line = 0
		}
		w := strings.FieldsFunc(what, func(r rune) bool { return r == ':' || r == '(' })
		tag := ""
		if len(w) > 0 {
			tag = strings.TrimSpace(w[0])
		}
		return id + ":" + strings.Fields(c.Lines[line])[0] + ":" + tag
	}
}

func C10() *corr.Engine {
	return &corr.Engine{
		ID: "C10", DriverEngine: "cachefs",
		Exhaustive: c10Exhaustive, Random: c10Random,
		RunImpl: cacheRunImpl, Oracle: c10Oracle, NonTrivial: c10NonTrivial, Classify: cacheClassify,
		Rule:      "every ordering of {cache.mtime, cache.mtime+dur, now, base.mtime} (5 × 8 back-dated offsets) × dur ∈ {0, 1 h} × 3 depths × sizes {0,5,32 KiB±1,100 KB}, and random histories of reads, direct base edits and ageing; non-trivial = the history contains a miss and a hit, or a stale refresh; distinct by script hash",
		Signature: cacheSig("C10"),
		CompareLine: func(impl, model string) bool {
			return model == "unmodelled" || cowStrip(impl) == model || namesSetEq(cowStrip(impl), model)
		},
	}
}

// ---- C11 generators: everything goes through the cache ----

var c11Dirs = []string{"/d", "/d/s", "/e"}
var c11Files = []string{"/d/f", "/d/g", "/d/s/h", "/e/k", "/top", "/d/g.tmp", "/d/f.partial"}

func c11Random(r *corr.Rand, tier string) []corr.Case {
	n := 700
	if tier == "thorough" {
		n = 30000
	}
	h := corr.HexS
	var cases []corr.Case
	for i := 0; i < n; i++ {
		rr := r.Fork()
		dur := corr.Pick(rr, []int{0, 3600})
		l := []string{fmt.Sprintf("case cache-mem %d", dur)}
		nh := 0
		var fileH []int
		// a coherent starting pair: some files only in the base (uncached), some created through the cache
		for _, d := range c11Dirs {
			l = append(l, "b.mkdirall "+h(d)+" 493")
		}
		for _, f := range c11Files {
			if rr.Chance(50) {
				l = append(l, "b.create "+h(f), fmt.Sprintf("h.write %d %s", nh, corr.Hex(payload(rr, 1+rr.Intn(10)))), fmt.Sprintf("h.close %d", nh))
				nh++
				if rr.Chance(50) {
					l = append(l, fmt.Sprintf("b.chtimes %s %d", h(f), corr.Pick(rr, []int{-9000, -4000, -100})))
				}
			}
		}
		for k := 0; k < 8+rr.Intn(28); k++ {
			f := corr.Pick(rr, c11Files)
			switch q := rr.Intn(100); {
			case q < 8:
				l = append(l, "create "+h(f))
				fileH = append(fileH, nh)
				nh++
			case q < 24:
				l = append(l, fmt.Sprintf("openfile %s %d 420", h(f), corr.Pick(rr, []int{2, 1, 0x42, 0x242, 0x202, 0x41, 0, 0x401, 0x402, 0x442, 0x441, 0xc2, 0x400, 0x101002})))
				fileH = append(fileH, nh)
				nh++
			case q < 30:
				l = append(l, "open "+h(f))
				fileH = append(fileH, nh)
				nh++
			case q < 36:
				l = append(l, "rename "+h(f)+" "+h(corr.Pick(rr, c11Files)))
			case q < 41:
				l = append(l, "remove "+h(f))
			case q < 45:
				l = append(l, fmt.Sprintf(corr.Pick(rr, []string{"mkdir %s 493", "mkdirall %s 493"}), h(corr.Pick(rr, append([]string{"/n", "/d/n"}, c11Dirs...)))))
			case q < 50:
				l = append(l, fmt.Sprintf(corr.Pick(rr, []string{"chmod %s 384", "chtimes %s -5000", "chown %s 1 1"}), h(f)))
			case q < 54:
				l = append(l, "stat "+h(f))
			default:
				if len(fileH) == 0 {
					continue
				}
				hi := corr.Pick(rr, fileH)
				op := corr.Pick(rr, []string{
					fmt.Sprintf("h.write %d %s", hi, corr.Hex(payload(rr, 1+rr.Intn(5)))),
					fmt.Sprintf("h.write %d %s", hi, corr.Hex(payload(rr, 1+rr.Intn(5)))),
					fmt.Sprintf("h.writeat %d %s %d", hi, corr.Hex(payload(rr, 1+rr.Intn(4))), rr.Intn(14)),
					fmt.Sprintf("h.writestring %d %s", hi, corr.Hex(payload(rr, 1+rr.Intn(4)))),
					fmt.Sprintf("h.read %d %d", hi, 1+rr.Intn(6)),
					fmt.Sprintf("h.readat %d %d %d", hi, 1+rr.Intn(6), rr.Intn(12)),
					fmt.Sprintf("h.seek %d %d %d", hi, rr.Intn(10), rr.Intn(3)),
					fmt.Sprintf("h.trunc %d %d", hi, rr.Intn(12)),
					fmt.Sprintf("h.stat %d", hi),
					fmt.Sprintf("h.close %d", hi),
				})
				l = append(l, op)
			}
		}
		l = append(l, "snapshot", "cohere")
		cases = append(cases, corr.Case{Lines: l})
	}
	return cases
}

// every flag combination × every cache state of the target: open through the cache, write, close —
// base and cache must end up identical (in particular the copy made for a write-open must be whole,
// wherever the flags put the handle's offset)
func c11Exhaustive(tier string) []corr.Case {
	h := corr.HexS
	var cases []corr.Case
	flags := c07Flags
	for _, dur := range []int{0, 3600} {
		for _, state := range []string{"uncached", "uncached-empty", "cached", "absent"} {
			for _, fl := range flags {
				l := []string{fmt.Sprintf("case cache-mem %d", dur), "b.mkdirall " + h("/d") + " 493"}
				nh := 0
				switch state {
				case "uncached", "cached":
					l = append(l, "b.create "+h("/d/f"), "h.write 0 6c696e6520310a", "h.close 0", "b.chtimes "+h("/d/f")+" -9000")
					nh = 1
				case "uncached-empty":
					l = append(l, "b.create "+h("/d/f"), "h.close 0", "b.chtimes "+h("/d/f")+" -9000")
					nh = 1
				}
				if state == "cached" {
					l = append(l, "open "+h("/d/f"), fmt.Sprintf("h.read %d 16", nh), fmt.Sprintf("h.close %d", nh))
					nh++
				}
				l = append(l, fmt.Sprintf("openfile %s %d 420", h("/d/f"), fl), fmt.Sprintf("h.write %d 5859", nh), fmt.Sprintf("h.seek %d 0 1", nh),
					fmt.Sprintf("h.close %d", nh), "snapshot", "cohere")
				cases = append(cases, corr.Case{Lines: l})
			}
		}
	}
	// every pair (and triple) of handle methods on one union handle: whatever moved or did not move the two cursors
	// first, a cursor-relative write afterwards must land at the same place in both layers
	{
		first := []string{"h.read 0 3", "h.readat 0 3 2", "h.write 0 4142", "h.writestring 0 4344", "h.writeat 0 4546 1", "h.writeat 0 4546 0", "h.readfrom 0 4748",
			"h.seek 0 4 0", "h.seek 0 2 1", "h.seek 0 -3 2", "h.seek 0 0 2", "h.trunc 0 2", "h.trunc 0 12", "h.stat 0", "h.sync 0"}
		second := []string{"h.write 0 5859", "h.writestring 0 5a5a", "h.readfrom 0 5757", "h.seek 0 1 1", "h.read 0 2", "h.trunc 0 5"}
		for _, st := range []string{"create", "open-cached", "open-uncached"} {
			for _, a := range first {
				var l []string
				for _, b := range second {
					switch st {
					case "create":
						l = append(l, "case cache-mem 0", "create "+h("/f"), "h.write 0 30313233343536373839", "h.seek 0 3 0")
					case "open-cached":
						l = append(l, "case cache-mem 3600", "b.create "+h("/f"), "h.write 0 30313233343536373839", "h.close 0", "b.chtimes "+h("/f")+" -9000",
							"open "+h("/f"), "h.read 1 16", "h.close 1", "openfile "+h("/f")+" 2 420")
					case "open-uncached":
						l = append(l, "case cache-mem 3600", "b.create "+h("/f"), "h.write 0 30313233343536373839", "h.close 0", "b.chtimes "+h("/f")+" -9000",
							"openfile "+h("/f")+" 2 420")
					}
					// the union handle is the last one opened in the case
					hi := map[string]string{"create": "0", "open-cached": "2", "open-uncached": "1"}[st]
					fix := func(x string) string { t := strings.Fields(x); t[1] = hi; return strings.Join(t, " ") }
					l = append(l, fix(a), fix(b), fix("h.write 0 2e"), "snapshot", "cohere")
				}
				cases = append(cases, corr.Case{Lines: l})
			}
		}
	}
	// every mutator (and a write-open) on a DIRECTORY the cache has not seen yet, and on one it holds an outdated entry of:
	// whatever the call answers, no regular file may appear under the directory's name in the cache
	for _, dur := range []int{0, 3600} {
		for _, state := range []string{"uncached", "stale"} {
			for _, op := range []string{"chmod %s 448", "chown %s 1 1", "chtimes %s -50", "rename %s " + h("/e"), "openfile %s 2 420", "openfile %s 0 420", "openfile %s 66 420", "mkdir %s 493", "mkdirall %s 493", "remove %s", "stat %s"} {
				l := []string{fmt.Sprintf("case cache-mem %d", dur), "b.mkdirall " + h("/d/sub") + " 493", "b.create " + h("/d/sub/f"), "h.write 0 6c696e65", "h.close 0", "b.chtimes " + h("/d/sub") + " -9000"}
				if state == "stale" {
					l = append(l, "l.mkdirall "+h("/d/sub")+" 493", "l.chtimes "+h("/d/sub")+" -20000")
				}
				l = append(l, fmt.Sprintf(op, h("/d/sub")), "stat "+h("/d/sub"), "open "+h("/d/sub"), "h.readdirnames 1 -1", "stat "+h("/d/sub/f"), "snapshot", "cohere")
				cases = append(cases, corr.Case{Lines: l})
			}
		}
		// … and on a directory with a CACHED FILE below it whose own cache entry has become outdated; the whole directory is
		// removed through the cache afterwards: nothing of it may stay behind in the cache layer
		for _, op := range []string{"chmod %s 448", "chown %s 1 1", "chtimes %s -50", "openfile %s 2 420", "mkdir %s 493", "stat %s", "remove %s"} {
			for _, rm := range []string{"removeall " + h("/d/sub"), "removeall " + h("/d"), "rename " + h("/d/sub") + " " + h("/e")} {
				l := []string{fmt.Sprintf("case cache-mem %d", dur), "b.mkdirall " + h("/d/sub") + " 493", "b.create " + h("/d/sub/f"), "h.write 0 6c696e65", "h.close 0",
					"b.chtimes " + h("/d/sub/f") + " -30000", "open " + h("/d/sub/f"), "h.read 1 16", "h.close 1",
					"l.chtimes " + h("/d/sub") + " -20000", "b.chtimes " + h("/d/sub") + " -9000",
					fmt.Sprintf(op, h("/d/sub")), "snapshot", "cohere", rm, "stat " + h("/d/sub/f"), "stat " + h("/e/f"), "snapshot", "cohere"}
				cases = append(cases, corr.Case{Lines: l})
			}
		}
	}
	return cases
}

// c11RoBase: every mutating call through a cache whose base refuses mutations: the call fails and base
// and cache stay identical (oracle only; the model covers the all-memory stack)
func c11RoBase() []corr.Case {
	h := corr.HexS
	var cases []corr.Case
	for _, dur := range []int{0, 3600} {
		setup := []string{fmt.Sprintf("case cache-robase %d", dur), "b.mkdirall " + h("/d") + " 493", "b.create " + h("/d/f"), "h.write 0 6261736566", "h.close 0",
			"b.chtimes " + h("/d/f") + " -9000", "open " + h("/d/f"), "h.read 1 16", "h.close 1"} // /d/f is cached now
		for _, op := range []string{"create " + h("/d/new"), "create " + h("/d/f"), "openfile " + h("/d/new") + " 66 420", "openfile " + h("/d/f") + " 578 420",
			"openfile " + h("/d/f") + " 1026 420", "mkdir " + h("/d/sub") + " 493", "mkdirall " + h("/x/y") + " 493", "remove " + h("/d/f"), "removeall " + h("/d"),
			"rename " + h("/d/f") + " " + h("/d/g"), "chmod " + h("/d/f") + " 384", "chtimes " + h("/d/f") + " -5", "chown " + h("/d/f") + " 1 1"} {
			l := append(append([]string{}, setup...), op, "stat "+h("/d/f"), "snapshot", "cohere")
			cases = append(cases, corr.Case{Lines: l})
		}
	}
	return cases
}

func c11Corpus() []corr.Case {
	h := corr.HexS
	return []corr.Case{
		// S10: ReadAt then Write on a union handle must land at the same place in both layers
		{Lines: []string{"case cache-mem 0", "create " + h("/f"), "h.write 0 30313233343536373839", "h.seek 0 0 0", "h.readat 0 3 7", "h.write 0 5858", "h.close 0", "snapshot", "cohere"}},
		// an open union handle, a second write-open with O_APPEND (which used to fail with EIO and drop the cached copy), a
		// re-cache through Chtimes, then a write through the first handle: both layers must get it
		{Lines: []string{"case cache-mem 3600", "b.mkdirall " + h("/d") + " 493", "b.create " + h("/d/g"), "h.write 0 8b3da50479734039bc3b", "b.chtimes " + h("/d/g") + " -9000",
			"openfile " + h("/d/g") + " 66 420", "openfile " + h("/d/g") + " 1090 420", "chtimes " + h("/d/g") + " -5000", "h.write 1 5d9d2fbf", "snapshot", "cohere"}},
		// S1: WriteAt then Write
		{Lines: []string{"case cache-mem 3600", "create " + h("/f"), "h.write 0 68656c6c6f", "h.writeat 0 58 1", "h.write 0 59", "h.close 0", "snapshot", "cohere"}},
	}
}

func c11NonTrivial(c corr.Case, impl []string) bool {
	positional := map[string]bool{}
	for i, l := range c.Lines {
		t := strings.Fields(l)
		if strings.Contains(impl[i], "#DIRECT") {
			continue
		}
		if t[0] == "h.readat" || t[0] == "h.writeat" {
			positional[t[1]] = true
		}
		if t[0] == "h.write" && positional[t[1]] && strings.HasPrefix(impl[i], "n=") && !strings.HasPrefix(impl[i], "n=0") {
			return true
		}
	}
	return false
}

func C11() *corr.Engine {
	e := C10()
	e.ID = "C11"
	e.Exhaustive = func(tier string) []corr.Case { return append(c11Exhaustive(tier), c11RoBase()...) }
	e.Random = c11Random
	e.Corpus = c11Corpus
	e.Oracle = c11Oracle
	e.NonTrivial = c11NonTrivial
	e.Rule = "random sequences that go only through the caching filesystem (all Fs methods, union-handle Seek/Read/ReadAt/Write/WriteAt/Truncate at all offsets) from coherent (base, cache) pairs, dur ∈ {0, 1 h}; non-trivial = a positional op followed by a successful sequential write on the same union handle; distinct by script hash"
	e.Signature = cacheSig("C11")
	return e
}

var _ = sort.Strings
var _ = os.Getpid
