package engines

import (
	"bytes"
	"errors"
	"fmt"
	"io"
	iofs "io/fs"
	"os"
	"path/filepath"
	"reflect"
	"sort"
	"strings"
	"syscall"
	"time"

	"github.com/spf13/afero"
	"github.com/spf13/afero/mem"

	"verifharness/corr"
)

// ErrClass maps any error of an Fs-level or handle-level call to its canonical class.
// Messages, PathError.Op and PathError.Path are never compared.
func ErrClass(err error) string {
	if err == nil {
		return "-"
	}
	var pe *os.PathError
	msg := err.Error()
	switch {
	case errors.Is(err, mem.ErrFileClosed) || errors.Is(err, os.ErrClosed) || errors.Is(err, afero.ErrFileClosed):
		return "closed"
	case errors.Is(err, io.EOF) || errors.Is(err, io.ErrUnexpectedEOF):
		return "eof"
	case errors.Is(err, mem.ErrOutOfRange):
		return "range"
	case errors.As(err, &pe) && strings.Contains(pe.Err.Error(), "read only"):
		return "rohandle"
	case errors.Is(err, syscall.ENOTDIR) || strings.Contains(msg, "not a dir"):
		return "notdir"
	case errors.Is(err, syscall.EISDIR):
		return "isdir"
	case errors.Is(err, syscall.ENOTEMPTY):
		return "notempty"
	case errors.Is(err, os.ErrNotExist):
		return "notexist"
	case errors.Is(err, os.ErrExist):
		return "exist"
	case errors.Is(err, os.ErrPermission) || errors.Is(err, syscall.EPERM) || errors.Is(err, syscall.EROFS):
		return "perm"
	case errors.Is(err, os.ErrInvalid) || errors.Is(err, syscall.EINVAL) || strings.Contains(msg, "negative"):
		return "inval"
	case errors.Is(err, syscall.EBADF):
		return "badf"
	case errors.Is(err, syscall.EIO):
		return "io"
	}
	return "other(" + msg + ")"
}

func fsErr(err error) string {
	if err == nil {
		return "ok"
	}
	return "err:" + ErrClass(err)
}

// Runner interprets the Fs-level script language of DESIGN.md §3.1 on any afero stack.
type Runner struct {
	Fs  afero.Fs
	Src afero.Fs            // optional: lines prefixed "src." act on it (same handle table)
	Alt map[string]afero.Fs // optional: other prefixes ("b", "l", …) -> filesystem
	H   []afero.File
	T0  time.Time // script times are offsets (seconds) from T0
}

func NewRunner(fs afero.Fs) *Runner { return &Runner{Fs: fs, T0: time.Unix(1_700_000_000, 0)} }

func (r *Runner) CloseAll() {
	for _, h := range r.H {
		if h != nil {
			func() { defer func() { recover() }(); h.Close() }()
		}
	}
}

func (r *Runner) open(f afero.File, err error) string {
	if f == nil {
		return "err:" + ErrClass(err)
	}
	r.H = append(r.H, f)
	if err != nil {
		return fmt.Sprintf("h=%d err:%s", len(r.H)-1, ErrClass(err))
	}
	return fmt.Sprintf("h=%d", len(r.H)-1)
}

// Atomically wraps the reading of a FileInfo's accessors. The controlled-scheduler harness replaces
// it so that the accessors of one Stat result are read without preemption (a FileInfo is a live
// view; reading its fields is not part of the Stat call whose atomicity C04 is about).
var Atomically = func(f func()) { f() }

func infoLine(fi os.FileInfo) (out string) {
	Atomically(func() { out = infoLine1(fi) })
	return
}

func infoLine1(fi os.FileInfo) string {
	return fmt.Sprintf("info name=%s size=%d dir=%v mode=%d", corr.HexS(fi.Name()), fi.Size(), fi.IsDir(), uint32(fi.Mode()))
}

// Exec runs one script line (already split) and returns the canonical result line.
func (r *Runner) Exec(t []string) string {
	if strings.HasPrefix(t[0], "src.") && r.Src != nil {
		saved := r.Fs
		r.Fs = r.Src
		defer func() { r.Fs = saved }()
		t = append([]string{strings.TrimPrefix(t[0], "src.")}, t[1:]...)
	}
	if k := strings.Index(t[0], "."); k > 0 && r.Alt != nil {
		if fs, ok := r.Alt[t[0][:k]]; ok {
			saved := r.Fs
			r.Fs = fs
			defer func() { r.Fs = saved }()
			t = append([]string{t[0][k+1:]}, t[1:]...)
		}
	}
	arg := func(i int) string { return string(corr.UnHex(t[i])) }
	switch t[0] {
	case "now":
		return "ok"
	case "create":
		return r.open(r.Fs.Create(arg(1)))
	case "mkdir":
		return fsErr(r.Fs.Mkdir(arg(1), os.FileMode(atoi(t[2]))))
	case "mkdirall":
		return fsErr(r.Fs.MkdirAll(arg(1), os.FileMode(atoi(t[2]))))
	case "open":
		return r.open(r.Fs.Open(arg(1)))
	case "openfile":
		return r.open(r.Fs.OpenFile(arg(1), atoi(t[2]), os.FileMode(atoi(t[3]))))
	case "remove":
		return fsErr(r.Fs.Remove(arg(1)))
	case "removeall":
		return fsErr(r.Fs.RemoveAll(arg(1)))
	case "rename":
		return fsErr(r.Fs.Rename(arg(1), arg(2)))
	case "stat", "statperm":
		fi, err := r.Fs.Stat(arg(1))
		if err != nil {
			return "err:" + ErrClass(err)
		}
		return infoLine(fi)
	case "lstat":
		var fi os.FileInfo
		var err error
		if l, ok := r.Fs.(afero.Lstater); ok {
			fi, _, err = l.LstatIfPossible(arg(1))
		} else {
			fi, err = r.Fs.Stat(arg(1))
		}
		if err != nil {
			return "err:" + ErrClass(err)
		}
		return infoLine(fi)
	case "chmod":
		return fsErr(r.Fs.Chmod(arg(1), os.FileMode(atoi(t[2]))))
	case "chown":
		return fsErr(r.Fs.Chown(arg(1), atoi(t[2]), atoi(t[3])))
	case "chtimes":
		tm := r.T0.Add(time.Duration(atoi64(t[2])) * time.Second)
		return fsErr(r.Fs.Chtimes(arg(1), tm, tm))
	}
	if strings.HasPrefix(t[0], "h.") {
		hi := atoi(t[1])
		if hi >= len(r.H) {
			return "err:inval"
		}
		h := r.H[hi]
		switch t[0] {
		case "h.name":
			return "str=" + corr.HexS(h.Name())
		case "h.stat":
			fi, err := h.Stat()
			if err != nil {
				return "err:" + ErrClass(err)
			}
			return infoLine(fi)
		case "h.sync":
			return fsErr(h.Sync())
		case "h.readdirfs": // the io/fs ReadDir method of the handle (where it has one): names and types of the entries
			rd, ok := h.(iofs.ReadDirFile)
			if !ok {
				return "err:inval"
			}
			es, err := rd.ReadDir(atoi(t[2]))
			var ns []string
			for _, e := range es {
				k := "/f"
				if e.IsDir() {
					k = "/d"
				}
				ns = append(ns, corr.HexS(e.Name())+k+fmt.Sprint(e.Type()))
			}
			return "entries=" + strings.Join(ns, ",") + " err:" + ErrClass(err)
		case "h.copyfrom": // io.Copy(handle k, at most n bytes of handle j): io.ReaderFrom of k if it has it, Read on j and Write on k otherwise
			hj := atoi(t[2])
			if hj >= len(r.H) {
				return "err:inval"
			}
			n, err := io.Copy(h, io.LimitReader(plainReader{r.H[hj]}, atoi64(t[3])))
			return fmt.Sprintf("n=%d err:%s", n, ErrClass(err))
		case "h.readdir":
			fis, err := h.Readdir(atoi(t[2]))
			if err != nil && ErrClass(err) != "eof" {
				return "err:" + ErrClass(err)
			}
			var ns []string
			for _, fi := range fis {
				k := "/f"
				if fi.IsDir() {
					k = "/d"
				}
				ns = append(ns, corr.HexS(fi.Name())+k)
			}
			return "infos=" + strings.Join(ns, ",") + " err:" + ErrClass(err)
		case "h.readdirnames":
			names, err := h.Readdirnames(atoi(t[2]))
			if err != nil && ErrClass(err) != "eof" {
				return "err:" + ErrClass(err)
			}
			var ns []string
			for _, n := range names {
				ns = append(ns, corr.HexS(n))
			}
			return "names=" + strings.Join(ns, ",") + " err:" + ErrClass(err)
		default:
			// handle I/O: same vocabulary as C02 (op h args…)
			tt := append([]string{strings.TrimPrefix(t[0], "h.")}, t[1:]...)
			return fileOp2(h, tt)
		}
	}
	return "bad-op"
}

// scribble overwrites a buffer that was handed to a Write call: a file must not keep a reference to it
func scribble(b []byte) {
	for i := range b {
		b[i] ^= 0xa5
	}
}

// plainReader hides every optional interface of a reader (WriterTo, Seeker, …).
type plainReader struct{ io.Reader }

// plainWriter hides every optional interface of a writer (ReaderFrom, …).
type plainWriter struct{ io.Writer }

// fileOp2 is FileOp with the unified error classes.
func fileOp2(h afero.File, t []string) string {
	switch t[0] {
	case "read":
		b := make([]byte, atoi(t[2]))
		n, err := h.Read(b)
		res := fmt.Sprintf("bytes=%s err:%s", corr.Hex(b[:n]), ErrClass(err))
		scribble(b) // the buffer is the caller's: what it does with it afterwards is nobody's business
		return res
	case "readat":
		b := make([]byte, atoi(t[2]))
		n, err := h.ReadAt(b, atoi64(t[3]))
		res := fmt.Sprintf("bytes=%s err:%s", corr.Hex(b[:n]), ErrClass(err))
		scribble(b)
		return res
	case "write":
		b := corr.UnHex(t[2])
		n, err := h.Write(b)
		scribble(b) // the caller's buffer is the caller's again once Write has returned
		return fmt.Sprintf("n=%d err:%s", n, ErrClass(err))
	case "writestring":
		n, err := h.WriteString(string(corr.UnHex(t[2])))
		return fmt.Sprintf("n=%d err:%s", n, ErrClass(err))
	case "readfrom": // io.Copy into the handle from a plain reader: io.ReaderFrom if the handle has it, Write otherwise
		n, err := io.Copy(h, plainReader{bytes.NewReader(corr.UnHex(t[2]))})
		return fmt.Sprintf("n=%d err:%s", n, ErrClass(err))
	case "copyout": // io.Copy out of the handle into a plain writer: io.WriterTo if the handle has it, Read until io.EOF otherwise
		var buf bytes.Buffer
		_, err := io.Copy(plainWriter{&buf}, h)
		return fmt.Sprintf("bytes=%s err:%s", corr.Hex(buf.Bytes()), ErrClass(err))
	case "writeat":
		b := corr.UnHex(t[2])
		n, err := h.WriteAt(b, atoi64(t[3]))
		scribble(b)
		return fmt.Sprintf("n=%d err:%s", n, ErrClass(err))
	case "trunc":
		return fsErr(h.Truncate(atoi64(t[2])))
	case "seek":
		p, err := h.Seek(atoi64(t[2]), atoi(t[3]))
		if err != nil {
			return "err:" + ErrClass(err)
		}
		return fmt.Sprintf("pos=%d", p)
	case "close":
		return fsErr(h.Close())
	}
	return "bad-op"
}

// ---- snapshots ----

type Node struct {
	Path    string
	Dir     bool
	Size    int64
	Mode    uint32
	Data    []byte
	Listing []string // base names, sorted
	MTime   int64
}

// MemKeys lists the keys of a MemMapFs' path map by reflection (read-only).
func MemKeys(fs afero.Fs) []string {
	m, ok := fs.(*afero.MemMapFs)
	if !ok {
		return nil
	}
	m.Stat("/") // force initialisation
	v := reflect.ValueOf(m).Elem().FieldByName("data")
	var keys []string
	it := v.MapRange()
	for it.Next() {
		keys = append(keys, it.Key().String())
	}
	sort.Strings(keys)
	return keys
}

func nodeOf(fs afero.Fs, p string) (Node, bool) {
	fi, err := fs.Stat(p)
	if err != nil {
		return Node{Path: p}, false
	}
	n := Node{Path: p, Dir: fi.IsDir(), Size: fi.Size(), Mode: uint32(fi.Mode()), MTime: fi.ModTime().UnixNano()}
	f, err := fs.Open(p)
	if err != nil {
		return n, true
	}
	defer f.Close()
	if n.Dir {
		names, _ := f.Readdirnames(-1)
		sort.Strings(names)
		n.Listing = names
	} else {
		n.Data, _ = io.ReadAll(f)
	}
	return n, true
}

// SnapshotMem dumps every key of the path map (not only what is reachable from the root).
func SnapshotMem(fs afero.Fs) []Node {
	var out []Node
	for _, k := range MemKeys(fs) {
		n, _ := nodeOf(fs, k)
		out = append(out, n)
	}
	return out
}

// SnapshotWalk dumps what is reachable from root through directory listings.
func SnapshotWalk(fs afero.Fs, root string) []Node {
	var out []Node
	var rec func(p string)
	rec = func(p string) {
		n, ok := nodeOf(fs, p)
		if !ok {
			out = append(out, Node{Path: p, Mode: 0xffffffff})
			return
		}
		out = append(out, n)
		if n.Dir {
			for _, c := range n.Listing {
				rec(filepath.Join(p, c))
			}
		}
	}
	rec(root)
	sort.Slice(out, func(i, j int) bool { return out[i].Path < out[j].Path })
	return out
}

// SnapLine renders a snapshot in the format of the Lean `memfs` engine.
func SnapLine(ns []Node) string {
	var parts []string
	for _, n := range ns {
		k, size := "f", n.Size
		if n.Dir {
			k, size = "d", 42
		}
		var ls []string
		for _, l := range n.Listing {
			ls = append(ls, corr.HexS(l))
		}
		parts = append(parts, fmt.Sprintf("%s:%s:%d:%d:%s:%s", corr.HexS(n.Path), k, size, n.Mode, corr.Hex(n.Data), strings.Join(ls, ",")))
	}
	return "snap " + strings.Join(parts, "|")
}

// FullSnapshot is the frozen-layer oracle's view of a filesystem: every path with kind, bytes,
// mode and modification time (MemMapFs: every key of the path map; otherwise a walk from root).
func FullSnapshot(fs afero.Fs, root string) string {
	var ns []Node
	if _, ok := fs.(*afero.MemMapFs); ok {
		ns = SnapshotMem(fs)
	} else {
		ns = SnapshotWalk(fs, root)
	}
	var b strings.Builder
	for _, n := range ns {
		fmt.Fprintf(&b, "%s|%v|%d|%o|%x|%d|%s\n", n.Path, n.Dir, n.Size, n.Mode, n.Data, n.MTime, strings.Join(n.Listing, ","))
	}
	return b.String()
}
