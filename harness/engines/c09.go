package engines

import (
	"fmt"
	iofs "io/fs"
	"os"
	"path/filepath"
	"sort"
	"strings"
	"sync"
	"time"

	"github.com/spf13/afero"

	"verifharness/corr"
)

// ---------------------------------------------------------------------------------------
// C09 — BasePathFs is a faithful re-rooting of the underlying filesystem.
// Script (engine `bpfs`): case bp <root> | case bpnest <outer> <inner>, then a well-formed
// C01 program whose names are relative to the root.  Oracle: twin run — the same program with
// the root(s) prepended by path/filepath.Join on a second MemMapFs; every result, File.Name()
// relative to the root, and the final trees must agree; FullBaseFsPath must be the joined path.
// ---------------------------------------------------------------------------------------

type bpStack struct {
	fs    afero.Fs
	mem   afero.Fs
	roots []string // outermost source first: path = Join(roots..., name)
}

func bpNew(t []string) *bpStack {
	m := afero.NewMemMapFs()
	switch t[1] {
	case "bp":
		d := string(corr.UnHex(t[2]))
		return &bpStack{afero.NewBasePathFs(m, d), m, []string{d}}
	case "bpnest":
		o, i := string(corr.UnHex(t[2])), string(corr.UnHex(t[3]))
		return &bpStack{afero.NewBasePathFs(afero.NewBasePathFs(m, o), i), m, []string{o, i}}
	case "bpnl": // the source offers no Lstat of its own
		d := string(corr.UnHex(t[2]))
		return &bpStack{afero.NewBasePathFs(plainFs{m}, d), m, []string{d}}
	case "bpnlnest":
		o, i := string(corr.UnHex(t[2])), string(corr.UnHex(t[3]))
		return &bpStack{afero.NewBasePathFs(afero.NewBasePathFs(plainFs{m}, o), i), m, []string{o, i}}
	}
	panic("unknown stack")
}

// plainFs hides every optional interface of the wrapped filesystem (Lstater, Linker, …).
type plainFs struct{ afero.Fs }

// real: what the source is asked for — each layer, innermost first, joins its cleaned root in front
func (s *bpStack) real(name string) string { return c09Real(s.roots, name) }

func c09Real(roots []string, name string) string {
	p := name
	for i := len(roots) - 1; i >= 0; i-- {
		p = filepath.Join(filepath.Clean(roots[i]), p)
	}
	return p
}

func c09RunImpl(c corr.Case) []string {
	var st *bpStack
	var r *Runner
	out := make([]string, 0, len(c.Lines))
	for _, line := range c.Lines {
		t := strings.Fields(line)
		out = append(out, guard(func() string {
			switch t[0] {
			case "case":
				st = bpNew(t)
				r = NewRunner(st.fs)
				r.Src = st.mem
				return "case"
			case "snapshot":
				return SnapLine(SnapshotMem(st.mem))
			case "mutators-twin":
				return c09MutatorsTwin(t[2], string(corr.UnHex(t[1])))
			case "dirents-os":
				return c09DirentsOS(string(corr.UnHex(t[1])), string(corr.UnHex(t[2])))
			case "relroot-os":
				return c09RelRootOS(string(corr.UnHex(t[1])), string(corr.UnHex(t[2])))
			case "symlink-os":
				return c09SymlinkOS(string(corr.UnHex(t[1])), string(corr.UnHex(t[2])), string(corr.UnHex(t[3])))
			case "fullpath":
				if b, ok := st.fs.(*afero.BasePathFs); ok {
					return "str=" + corr.HexS(afero.FullBaseFsPath(b, string(corr.UnHex(t[1]))))
				}
				return "err:inval"
			}
			return r.Exec(t)
		}))
	}
	return out
}

// c09SymlinkOS: the Lstat/symlink extensions, on the operating system's file system (MemMapFs has no links).
// SymlinkIfPossible(old, new) through a BasePathFs rooted at <tmp>/<root> must be Symlink(D/old, D/new) on the
// source; ReadlinkIfPossible and LstatIfPossible must answer what the source answers for D/new; reading through the
// link must reach the target inside the root.
func c09SymlinkOS(root, oldname, newname string) string {
	tmp, err := os.MkdirTemp("", "verif-c09-")
	if err != nil {
		return "fail: " + err.Error()
	}
	defer os.RemoveAll(tmp)
	D := filepath.Join(tmp, root)
	os.MkdirAll(filepath.Join(D, "sub"), 0o755)
	os.WriteFile(filepath.Join(D, "data.txt"), []byte("data"), 0o644)
	os.WriteFile(filepath.Join(D, "sub", "inner.txt"), []byte("inner"), 0o644)
	b := afero.NewBasePathFs(afero.NewOsFs(), D).(*afero.BasePathFs)
	if _, err := b.RealPath(oldname); err != nil {
		return "skipped: target outside the root"
	}
	realNew, err := b.RealPath(newname)
	if err != nil {
		return "skipped: link outside the root"
	}
	realOld, _ := b.RealPath(oldname)
	// the reference: the same operation on the source with D prepended, in a second tree
	tmp2, _ := os.MkdirTemp("", "verif-c09-")
	defer os.RemoveAll(tmp2)
	D2 := filepath.Join(tmp2, root)
	os.MkdirAll(filepath.Join(D2, "sub"), 0o755)
	os.WriteFile(filepath.Join(D2, "data.txt"), []byte("data"), 0o644)
	os.WriteFile(filepath.Join(D2, "sub", "inner.txt"), []byte("inner"), 0o644)
	rel := func(p, d string) string { return strings.TrimPrefix(p, d) }
	refErr := os.Symlink(filepath.Join(D2, rel(realOld, D)), filepath.Join(D2, rel(realNew, D)))
	gotErr := b.SymlinkIfPossible(oldname, newname)
	if (refErr == nil) != (gotErr == nil) {
		return fmt.Sprintf("fail: SymlinkIfPossible(%q, %q) = %v, the source with the root prepended gives %v", oldname, newname, gotErr, refErr)
	}
	if gotErr != nil {
		return "both-fail"
	}
	refTarget, _ := os.Readlink(filepath.Join(D2, rel(realNew, D)))
	gotTarget, err := os.Readlink(realNew)
	if err != nil || rel(gotTarget, D) != rel(refTarget, D2) {
		return fmt.Sprintf("fail: the link %q points to %q (%v), the same call on the source with the root prepended makes it point to %q", newname, rel(gotTarget, D), err, rel(refTarget, D2))
	}
	via, err := b.ReadlinkIfPossible(newname)
	if err != nil || via != gotTarget {
		return fmt.Sprintf("fail: ReadlinkIfPossible(%q) = %q, %v; the source says %q", newname, via, err, gotTarget)
	}
	fi, lst, err := b.LstatIfPossible(newname)
	if err != nil || !lst || fi.Mode()&os.ModeSymlink == 0 {
		return fmt.Sprintf("fail: LstatIfPossible(%q) does not describe the link (%v)", newname, err)
	}
	// Stat follows the link, exactly as the source's Stat of D/new does (a link to a file, to a directory, to nothing)
	sfi, serr := b.Stat(newname)
	rfi, rerr := os.Stat(filepath.Join(D2, rel(realNew, D)))
	if (serr == nil) != (rerr == nil) || (serr == nil && (sfi.Mode().Type() != rfi.Mode().Type() || sfi.IsDir() != rfi.IsDir() || (!sfi.IsDir() && sfi.Size() != rfi.Size()))) {
		return fmt.Sprintf("fail: Stat(%q) through the wrapper: %v, %v; the reference: %v, %v", newname, sfi, serr, rfi, rerr)
	}
	got, err1 := afero.ReadFile(b, newname)
	ref, err2 := os.ReadFile(filepath.Join(D2, rel(realNew, D)))
	if (err1 == nil) != (err2 == nil) || string(got) != string(ref) {
		return fmt.Sprintf("fail: reading through the link gives %q, %v; the reference %q, %v", got, err1, ref, err2)
	}
	return "ok"
}

// c09RelRootOS: a relative root directly on the operating system's file system. RealPath and FullBaseFsPath are the
// joined relative path (Join(root, name)), and an operation through the wrapper is the operation on the source with the
// root prepended — also after the working directory has changed (the root is relative to the working directory of the
// moment of the call, like every relative name handed to the OS). Runs in a scratch directory; the working directory is
// restored.
var c09Chdir sync.Mutex

func c09RelRootOS(root, name string) string {
	c09Chdir.Lock()
	defer c09Chdir.Unlock()
	old, err := os.Getwd()
	if err != nil {
		return "skipped: no working directory"
	}
	defer os.Chdir(old)
	tmp, err := os.MkdirTemp("", "verif-c09rel-")
	if err != nil {
		return "fail: " + err.Error()
	}
	defer os.RemoveAll(tmp)
	for _, d := range []string{"one", "two"} {
		os.MkdirAll(filepath.Join(tmp, d, root, "sub"), 0o755)
		os.WriteFile(filepath.Join(tmp, d, root, "data.txt"), []byte("in "+d), 0o644)
	}
	if err := os.Chdir(filepath.Join(tmp, "one")); err != nil {
		return "fail: " + err.Error()
	}
	b := afero.NewBasePathFs(afero.NewOsFs(), root).(*afero.BasePathFs)
	want := filepath.Join(root, name)
	if got, err := b.RealPath(name); err != nil || got != filepath.Clean(want) {
		return fmt.Sprintf("fail: RealPath(%q) below the root %q = %q, %v; the joined path is %q", name, root, got, err, filepath.Clean(want))
	}
	if got := afero.FullBaseFsPath(b, name); got != want {
		return fmt.Sprintf("fail: FullBaseFsPath = %q, the joined path is %q", got, want)
	}
	read := func() string {
		got, err1 := afero.ReadFile(b, "data.txt")
		ref, err2 := os.ReadFile(filepath.Join(root, "data.txt"))
		if (err1 == nil) != (err2 == nil) || string(got) != string(ref) {
			return fmt.Sprintf("fail: reading data.txt through the wrapper gives %q, %v; the source with the root prepended gives %q, %v", got, err1, ref, err2)
		}
		return ""
	}
	if r := read(); r != "" {
		return r
	}
	os.Chdir(filepath.Join(tmp, "two"))
	if r := read(); r != "" {
		return r + " (after a change of the working directory)"
	}
	return "ok"
}

// c09DirentsOS: listing a directory through a BasePathFs on the operating system's file system must be listing
// D/dir on the source — by every entry point of the handle (Readdir, Readdirnames, and the io/fs ReadDir method
// where the source's handle has it), and also for what the returned entries say LATER: the source's entries are
// live (Info() stats the file when asked), so after the file has grown or gone the entries obtained through the
// wrapper must answer what the entries obtained from the source answer.
func c09DirentsOS(root, dir string) string {
	tmp, err := os.MkdirTemp("", "verif-c09dir-")
	if err != nil {
		return "fail: " + err.Error()
	}
	defer os.RemoveAll(tmp)
	D := filepath.Join(tmp, root)
	os.MkdirAll(filepath.Join(D, "d", "sub"), 0o755)
	os.WriteFile(filepath.Join(D, "d", "grow.txt"), []byte("abc"), 0o644)
	os.WriteFile(filepath.Join(D, "d", "gone.txt"), []byte("abcde"), 0o644)
	os.WriteFile(filepath.Join(D, "d", "same.txt"), []byte("x"), 0o644)
	b := afero.NewBasePathFs(afero.NewOsFs(), D)
	describe := func(open func() (afero.File, error)) string {
		var sb strings.Builder
		f, err := open()
		if err != nil {
			return "open:" + ErrClass(err)
		}
		defer f.Close()
		var ents []iofs.DirEntry
		if rd, ok := f.(iofs.ReadDirFile); ok {
			ents, err = rd.ReadDir(-1)
			fmt.Fprintf(&sb, "readdirfile err:%s;", ErrClass(err))
		} else {
			sb.WriteString("no-readdirfile;")
		}
		f2, _ := open()
		fis, err := f2.Readdir(-1)
		f2.Close()
		fmt.Fprintf(&sb, "readdir err:%s;", ErrClass(err))
		f3, _ := open()
		names, err := f3.Readdirnames(-1)
		f3.Close()
		sort.Strings(names)
		fmt.Fprintf(&sb, "names=%s err:%s;", strings.Join(names, ","), ErrClass(err))
		// the directory changes after it has been listed
		os.WriteFile(filepath.Join(D, "d", "grow.txt"), []byte("abcdefgh"), 0o644)
		os.Remove(filepath.Join(D, "d", "gone.txt"))
		sort.Slice(ents, func(i, j int) bool { return ents[i].Name() < ents[j].Name() })
		for _, e := range ents {
			fi, err := e.Info()
			if err != nil {
				fmt.Fprintf(&sb, "%s dir=%v info:%s;", e.Name(), e.IsDir(), ErrClass(err))
			} else {
				fmt.Fprintf(&sb, "%s dir=%v info:%s/%d;", e.Name(), e.IsDir(), fi.Name(), fi.Size())
			}
		}
		sort.Slice(fis, func(i, j int) bool { return fis[i].Name() < fis[j].Name() })
		for _, fi := range fis {
			fmt.Fprintf(&sb, "%s dir=%v size=%d;", fi.Name(), fi.IsDir(), fi.Size())
		}
		// restore for the second description
		os.WriteFile(filepath.Join(D, "d", "grow.txt"), []byte("abc"), 0o644)
		os.WriteFile(filepath.Join(D, "d", "gone.txt"), []byte("abcde"), 0o644)
		return sb.String()
	}
	got := describe(func() (afero.File, error) { return b.Open(dir) })
	want := describe(func() (afero.File, error) { return afero.NewOsFs().Open(filepath.Join(D, dir)) })
	if got != want {
		return fmt.Sprintf("fail: listing %q through the wrapper (before and after the directory changed) gives %s; the source with the root prepended gives %s", dir, got, want)
	}
	// a file handle through the wrapper is the source's handle: every method answers what the source's answers, also
	// after Close (a second Close, I/O and Stat on the closed handle)
	life := func(open func() (afero.File, error)) string {
		f, err := open()
		if err != nil {
			return "open:" + ErrClass(err)
		}
		var sb strings.Builder
		n, err := f.Write([]byte("yz"))
		fmt.Fprintf(&sb, "write %d %s;", n, ErrClass(err))
		fmt.Fprintf(&sb, "close %s;", ErrClass(f.Close()))
		fmt.Fprintf(&sb, "close %s;", ErrClass(f.Close()))
		n, err = f.Write([]byte("q"))
		fmt.Fprintf(&sb, "write %d %s;", n, ErrClass(err))
		n, err = f.Read(make([]byte, 2))
		fmt.Fprintf(&sb, "read %d %s;", n, ErrClass(err))
		_, err = f.Stat()
		fmt.Fprintf(&sb, "stat %s;", ErrClass(err))
		_, err = f.Seek(0, 0)
		fmt.Fprintf(&sb, "seek %s;", ErrClass(err))
		fmt.Fprintf(&sb, "sync %s;trunc %s;close %s", ErrClass(f.Sync()), ErrClass(f.Truncate(0)), ErrClass(f.Close()))
		return sb.String()
	}
	gl := life(func() (afero.File, error) { return b.OpenFile("d/same.txt", os.O_RDWR, 0) })
	wl := life(func() (afero.File, error) { return afero.NewOsFs().OpenFile(filepath.Join(D, "d", "same.txt"), os.O_RDWR, 0) })
	if gl != wl {
		return fmt.Sprintf("fail: a file handle through the wrapper answers [%s]; the source's own handle answers [%s]", gl, wl)
	}
	return "ok"
}

// c09MutatorsTwin: every mutating method through a BasePathFs rooted at D must be the same method of the source on
// D/name — result class and resulting tree — also where the source refuses: on the operating system's file system
// (an existing regular file where a directory is wanted, a missing parent, a populated directory) and over a source
// that refuses everything (ReadOnlyFs). how ∈ os | ro.
func c09MutatorsTwin(how, root string) string {
	type op struct {
		name string
		run  func(fs afero.Fs, p string) error
	}
	ops := []op{
		{"mkdir", func(fs afero.Fs, p string) error { return fs.Mkdir(p, 0o755) }},
		{"mkdirall", func(fs afero.Fs, p string) error { return fs.MkdirAll(p, 0o755) }},
		{"remove", func(fs afero.Fs, p string) error { return fs.Remove(p) }},
		{"removeall", func(fs afero.Fs, p string) error { return fs.RemoveAll(p) }},
		{"create", func(fs afero.Fs, p string) error {
			f, err := fs.Create(p)
			if err == nil {
				f.Close()
			}
			return err
		}},
		{"openfile-excl", func(fs afero.Fs, p string) error {
			f, err := fs.OpenFile(p, os.O_CREATE|os.O_EXCL|os.O_WRONLY, 0o644)
			if err == nil {
				f.Close()
			}
			return err
		}},
		{"chmod", func(fs afero.Fs, p string) error { return fs.Chmod(p, 0o700) }},
		{"chtimes", func(fs afero.Fs, p string) error { return fs.Chtimes(p, time.Unix(5, 0), time.Unix(5, 0)) }},
		{"rename-to-new", func(fs afero.Fs, p string) error { return fs.Rename(p, filepath.Join(filepath.Dir(p), "renamed")) }},
	}
	names := []string{"data.txt", "sub", "sub/inner.txt", "nope", "data.txt/below", "sub/new", "nope/deeper", "", "."}
	for _, o := range ops {
		for _, n := range names {
			if o.name == "rename-to-new" && (n == "" || n == ".") {
				continue // the new name would be computed from two different parents
			}
			var got, want, gotTree, wantTree string
			run := func(through bool) (string, string) {
				if how == "os" {
					tmp, err := os.MkdirTemp("", "verif-c09mut-")
					if err != nil {
						return "setup:" + err.Error(), ""
					}
					defer os.RemoveAll(tmp)
					D := filepath.Join(tmp, root)
					os.MkdirAll(filepath.Join(D, "sub"), 0o755)
					os.WriteFile(filepath.Join(D, "data.txt"), []byte("data"), 0o644)
					os.WriteFile(filepath.Join(D, "sub", "inner.txt"), []byte("inner"), 0o644)
					var err2 error
					if through {
						err2 = o.run(afero.NewBasePathFs(afero.NewOsFs(), D), n)
					} else {
						err2 = o.run(afero.NewOsFs(), filepath.Join(D, n))
					}
					var sb strings.Builder
					filepath.Walk(D, func(p string, fi os.FileInfo, err error) error {
						if err == nil {
							fmt.Fprintf(&sb, "%s %v %v;", strings.TrimPrefix(p, D), fi.IsDir(), fi.Mode().Perm())
						}
						return nil
					})
					return ErrClass(err2), sb.String()
				}
				m := afero.NewMemMapFs()
				D := filepath.Join("/", root)
				m.MkdirAll(filepath.Join(D, "sub"), 0o755)
				afero.WriteFile(m, filepath.Join(D, "data.txt"), []byte("data"), 0o644)
				afero.WriteFile(m, filepath.Join(D, "sub", "inner.txt"), []byte("inner"), 0o644)
				ro := afero.NewReadOnlyFs(m)
				var err2 error
				if through {
					err2 = o.run(afero.NewBasePathFs(ro, D), n)
				} else {
					err2 = o.run(ro, filepath.Join(D, n))
				}
				return ErrClass(err2), SnapLine(SnapshotMem(m))
			}
			got, gotTree = run(true)
			want, wantTree = run(false)
			if got != want || gotTree != wantTree {
				return fmt.Sprintf("fail: %s(%q) through BasePathFs over %s answers %s, the source with the root prepended answers %s (trees equal: %v)", o.name, n, how, got, want, gotTree == wantTree)
			}
		}
	}
	return "ok"
}

func c09Oracle(c corr.Case, impl []string) (string, int) {
	var st *bpStack
	var twin afero.Fs
	var tr *Runner
	for i, line := range c.Lines {
		t := strings.Fields(line)
		if impl[i] == "panic" {
			return "call panics: " + t[0], i
		}
		switch {
		case t[0] == "symlink-os" || t[0] == "relroot-os" || t[0] == "dirents-os" || t[0] == "mutators-twin":
			if strings.HasPrefix(impl[i], "fail") {
				return impl[i], i
			}
			continue
		case t[0] == "case":
			st = bpNew(t)
			twin = afero.NewMemMapFs()
			tr = NewRunner(twin)
			continue
		case t[0] == "snapshot":
			if want := SnapLine(SnapshotMem(twin)); want != impl[i] {
				return "underlying tree differs from the same program run with the root prepended", i
			}
			continue
		case t[0] == "fullpath":
			// "the joined path": the name joined to each root as given, innermost first — level by level, as the stack
			// resolves names (an inner root that climbs, "/../x", stays below the outer one)
			wp := string(corr.UnHex(t[1]))
			for k := len(st.roots) - 1; k >= 0; k-- {
				wp = filepath.Join(st.roots[k], wp)
			}
			want := "str=" + corr.HexS(wp)
			if impl[i] != want {
				return fmt.Sprintf("FullBaseFsPath = %s, joined roots give %s", impl[i], want), i
			}
			continue
		case strings.HasPrefix(t[0], "src."):
			tt := append([]string{strings.TrimPrefix(t[0], "src.")}, t[1:]...)
			tr.Exec(tt)
			continue
		}
		// the same call on the twin, with the roots prepended to every name argument
		tt := append([]string{}, t...)
		if !strings.HasPrefix(t[0], "h.") {
			tt[1] = corr.HexS(st.real(string(corr.UnHex(t[1]))))
			if t[0] == "rename" {
				tt[2] = corr.HexS(st.real(string(corr.UnHex(t[2]))))
			}
		}
		want := tr.Exec(tt)
		if t[0] == "h.name" && strings.HasPrefix(want, "str=") {
			// files report their names relative to the root
			full := string(corr.UnHex(strings.TrimPrefix(want, "str=")))
			R := c09Real(st.roots, "")
			var rel string
			switch {
			case full == R || full == "/":
				// the root directory itself: "" or the separator, depending on the root's spelling — left to the model
				continue
			case R == "/":
				rel = full
			case R == ".":
				rel = "/" + full
			default:
				rel = strings.TrimPrefix(full, R)
			}
			want = "str=" + corr.HexS(rel)
		}
		if impl[i] != want {
			return fmt.Sprintf("%s through BasePathFs gives %q, the underlying filesystem with the root prepended gives %q", t[0], impl[i], want), i
		}
	}
	return "", -1
}

var c09Roots = [][]string{
	{"bp", "/base"}, {"bp", "/base/"}, {"bp", "/x/../base//sub/."}, {"bp", "/"}, {"bp", "//deep/er/root"},
	{"bpnest", "/base", "/sub"}, {"bpnest", "/base/", "/sub/inner/"}, {"bpnest", "/", "/base"}, {"bpnest", "/base", "/"},
	{"bpnl", "/base"}, {"bpnlnest", "/base", "/sub"},
	// an inner root that climbs: the outer level confines it before the roots are joined (/base/shared, never /shared)
	{"bpnest", "/base", "/../shared"}, {"bpnest", "/base/", "/sub/../../x"}, {"bpnlnest", "/jail", "/../../shared"},
	// relative roots: the working directory itself, below it, above it
	{"bp", "."}, {"bp", ""}, {"bp", "rel"}, {"bp", "./rel/x/.."}, {"bp", ".."}, {"bp", "../up"},
	{"bpnest", "rel", "sub"}, {"bpnest", ".", "sub"}, {"bpnest", "rel", "."}, {"bpnest", "/base", "sub"}, {"bpnest", "..", "in"},
}

// a name that leaves the innermost root by ".." and comes back in by naming the root again
func c09Reenter(root []string, sp string) string {
	inner := filepath.Clean(root[len(root)-1])
	if inner == "/" || inner == "." || inner == ".." || strings.HasPrefix(inner, "../") {
		return ""
	}
	n := len(strings.Split(strings.Trim(inner, "/"), "/"))
	return strings.Repeat("../", n) + strings.TrimPrefix(inner, "/") + "/" + strings.TrimPrefix(sp, "/")
}

func c09Header(root []string) string {
	h := "case " + root[0]
	for _, r := range root[1:] {
		h += " " + corr.HexS(r)
	}
	return h
}

func c09Wrap(root []string, prog corr.Case, r *corr.Rand) corr.Case {
	lines := []string{c09Header(root)}
	// the root directory itself must exist in the source
	full := c09Real(root[1:], "")
	lines = append(lines, "src.mkdirall "+corr.HexS(full)+" 493")
	nh := 0
	for _, l := range prog.Lines[1:] {
		if l == "snapshot" && r.Chance(50) {
			continue
		}
		t := strings.Fields(l)
		if t[0] == "stat" && r.Chance(50) {
			l = "l" + l // LstatIfPossible: the same answer where there are no symbolic links
		}
		lines = append(lines, l)
		if t[0] == "create" || t[0] == "open" || t[0] == "openfile" {
			nh++ // may over-count failed opens; h.name on a missing handle answers err:inval on both sides
			if r.Chance(40) {
				lines = append(lines, fmt.Sprintf("h.name %d", r.Intn(nh)))
			}
		}
		if r.Chance(6) {
			p := randPath(r, 3)
			if re := c09Reenter(root, p); re != "" && r.Chance(30) {
				p = re
			}
			lines = append(lines, "fullpath "+corr.HexS(p))
		}
	}
	lines = append(lines, "snapshot")
	return corr.Case{Lines: lines}
}

func c09Random(r *corr.Rand, tier string) []corr.Case {
	n := 900
	if tier == "thorough" {
		n = 40000
	}
	var cases []corr.Case
	for i := 0; i < n; i++ {
		rr := r.Fork()
		prog := genC01(rr, 6+rr.Intn(30))
		cases = append(cases, c09Wrap(c09Roots[i%len(c09Roots)], prog, rr))
	}
	return cases
}

func c09SymlinkCases() []corr.Case {
	h := corr.HexS
	var cases []corr.Case
	for _, root := range []string{"base", "base/deep/er"} {
		for _, o := range []string{"data.txt", "/data.txt", "sub/inner.txt", "/sub/inner.txt", "./data.txt", "sub/../data.txt", "sub", "/nope"} {
			l := []string{c09Header([]string{"bp", "/base"})}
			for _, n := range []string{"link", "/link", "sub/link", "/sub/link", "sub/../link2"} {
				l = append(l, "symlink-os "+h(root)+" "+h(o)+" "+h(n))
			}
			cases = append(cases, corr.Case{Lines: l})
		}
	}
	// relative roots directly on the operating system's file system
	lr := []string{c09Header([]string{"bp", "/base"})}
	for _, root := range []string{"rel", "rel/deeper", "./rel", "rel/"} {
		for _, n := range []string{"x", "/x", "sub/y", "", "/"} {
			lr = append(lr, "relroot-os "+h(root)+" "+h(n))
		}
	}
	cases = append(cases, corr.Case{Lines: lr})
	// directory handles on the operating system's file system: every listing entry point, entries asked again later
	ld := []string{c09Header([]string{"bp", "/base"})}
	for _, root := range []string{"base", "base/deep"} {
		for _, d := range []string{"d", "/d", "d/", "./d", "d/sub/..", "/d/sub", "nope"} {
			ld = append(ld, "dirents-os "+h(root)+" "+h(d))
		}
	}
	cases = append(cases, corr.Case{Lines: ld})
	// every mutator where the source refuses (operating system; a read-only source)
	cases = append(cases, corr.Case{Lines: []string{c09Header([]string{"bp", "/base"}), "mutators-twin " + h("base") + " os", "mutators-twin " + h("base/deep") + " os", "mutators-twin " + h("base") + " ro", "mutators-twin " + h("/") + " ro"}})
	return cases
}

func c09Exhaustive(tier string) []corr.Case {
	// every Fs method once on an in-root file and directory, for every root, with non-trivial spellings
	h := corr.HexS
	var cases []corr.Case
	for _, root := range c09Roots {
		full := c09Real(root[1:], "")
		// (the last three: in-root names whose first element merely BEGINS with dots)
		sps := []string{"/d/f", "d/f", "/d//f", "/./d/f", "/d/x/../f", "//d/f", "/..data/f", "/.../f", "/.hidden/..f"}
		if re := c09Reenter(root, "d/f"); re != "" {
			sps = append(sps, re, "/"+re) // leaves the root and re-enters it: still a name inside the root
		}
		for _, sp := range sps {
			dir := filepath.Dir(filepath.Clean("/" + sp))
			l := []string{c09Header(root), "src.mkdirall " + h(full) + " 493",
				"mkdirall " + h(dir+"/x") + " 493", "create " + h(sp), "h.write 0 68656c6c6f", "h.name 0", "h.close 0",
				"stat " + h(sp), "lstat " + h(sp), "lstat " + h(dir), "lstat " + h(dir+"/nope"), "open " + h(sp), "h.read 1 16", "h.name 1", "open " + h(dir), "h.readdirnames 2 -1", "h.name 2",
				"chmod " + h(sp) + " 384", "chtimes " + h(sp) + " 5", "chown " + h(sp) + " 1 1",
				"openfile " + h(sp) + " 2 420", "h.writeat 3 5858 1", "h.name 3", "h.close 3",
				// every flag word reaches the source as it is, also the odd ones without write access; a second Close is the source's second Close
				"openfile " + h(sp) + " 128 420", "openfile " + h(sp) + " 1024 420", "h.read 4 16", "h.close 4", "openfile " + h(sp) + " 512 420", "h.read 5 16", "h.close 5", "stat " + h(sp),
				"openfile " + h(sp) + " 1025 420", "h.write 6 5a", "h.close 6", "chtimes " + h(sp) + " 5", "h.close 6", "stat " + h(sp), "h.close 3", "h.close 0",
				"rename " + h(sp) + " " + h(dir+"/g"), "stat " + h(dir+"/g"), "fullpath " + h(sp), "fullpath " + h(""),
				"mkdir " + h(dir+"/m") + " 448", "remove " + h(dir+"/g"), "removeall " + h(dir), "stat " + h(dir), "snapshot"}
			cases = append(cases, corr.Case{Lines: l})
		}
	}
	return append(cases, c09SymlinkCases()...)
}

func C09() *corr.Engine {
	return &corr.Engine{
		ID: "C09", DriverEngine: "bpfs",
		Exhaustive: c09Exhaustive, Random: c09Random,
		RunImpl: c09RunImpl, Oracle: c09Oracle,
		CompareLine: func(impl, model string) bool { return model == "unmodelled" || impl == model },
		NonTrivial: func(c corr.Case, impl []string) bool {
			for _, l := range c.Lines {
				t := strings.Fields(l)
				if len(t) > 1 && !strings.HasPrefix(t[0], "h.") && !strings.HasPrefix(t[0], "src.") && t[0] != "case" && t[0] != "fullpath" {
					if p := string(corr.UnHex(t[1])); p != filepath.Clean(p) {
						return true
					}
				}
			}
			return false
		},
		Classify: func(c corr.Case, impl []string, hist map[string]int) {
			for i, l := range c.Lines {
				t := strings.Fields(l)
				hist["op:"+t[0]]++
				if t[0] == "case" {
					hist["stack:"+t[1]]++
				}
				if strings.HasPrefix(impl[i], "err:") {
					hist[impl[i]]++
				}
			}
		},
		Rule: "well-formed C01 programs (all Fs methods, handle I/O, listings, redundant spellings that stay inside the root) run through BasePathFs on 5 roots and 4 nested pairs, compared with a twin MemMapFs receiving filepath.Join(roots…, name); non-trivial = at least one in-root name with a non-trivial spelling; distinct by script hash",
		Signature: func(c corr.Case, impl []string, what string, line int) string {
			if line < 0 || line >= len(c.Lines) {
				line = 0
			}
			return "C09:" + strings.Fields(c.Lines[line])[0] + ":" + strings.Fields(c.Lines[0])[1]
		},
	}
}
