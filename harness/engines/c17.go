package engines

import (
	"bytes"
	"fmt"
	"hash/crc32"
	"io"
	"os"
	"strings"

	"github.com/spf13/afero"

	"verifharness/corr"
)

// ---------------------------------------------------------------------------------------
// C17 — content helpers are exact.
// Script (engine `contains`):
//   case <stack>
//   contains <content-hex> <needle-hex>+          (model: containsAny; oracle: bytes.Contains)
//   rt <writefile|writereader|safewrite|safeexisting> <path-hex> <size> <seed>   (oracle only)
// ---------------------------------------------------------------------------------------

var c17Stacks = []string{"mem", "os", "bp", "cow", "cache0", "cache1h", "short"}

func genBytes(size int, seed int) []byte {
	b := make([]byte, size)
	x := uint32(seed)*2654435761 + 12345
	for i := range b {
		x = x*1664525 + 1013904223
		b[i] = byte(x >> 24)
	}
	return b
}

func c17RunImpl(c corr.Case) []string {
	var st *Stack
	defer func() {
		if st != nil {
			st.Cleanup()
		}
	}()
	out := make([]string, 0, len(c.Lines))
	k := 0
	var prevGot, prevWant []byte
	for _, line := range c.Lines {
		t := strings.Fields(line)
		out = append(out, guard(func() string {
			switch t[0] {
			case "deep-osl":
				return deepOSL(t[1])
			case "case":
				if st != nil {
					st.Cleanup()
				}
				st = NewStack(t[1])
				return "case"
			case "contains", "containsgen":
				k++
				name := fmt.Sprintf("/d/f%d", k)
				st.Base.MkdirAll(st.P("/d"), 0o755)
				content, needles := c17Content(t)
				if err := afero.WriteFile(st.Base, st.P(name), content, 0o644); err != nil {
					return "setup-failed:" + err.Error()
				}
				var ns [][]byte
				for _, h := range needles {
					ns = append(ns, corr.UnHex(h))
				}
				var got bool
				var err error
				aw := c17Forms(st.Fs, crc32.ChecksumIEEE([]byte(line))%2 == 1)
				if len(ns) == 1 {
					got, err = aw.FileContainsBytes(name, ns[0])
				} else {
					got, err = aw.FileContainsAnyBytes(name, ns)
				}
				if err != nil {
					return "err:" + err.Error()
				}
				return fmt.Sprint(got)
			case "rt":
				path := string(corr.UnHex(t[2]))
				data := genBytes(atoi(t[3]), atoi(t[4]))
				// every helper exists as a function and as a method of afero.Afero: half of the lines (by their hash) use the method
				aw := c17Forms(st.Fs, crc32.ChecksumIEEE([]byte(line))%2 == 1)
				switch t[1] {
				case "writefile":
					dir := path[:strings.LastIndex(path, "/")+1]
					if err := st.Fs.MkdirAll(dir, 0o755); err != nil {
						return "rt fail: mkdirall " + err.Error()
					}
					if err := aw.WriteFile(path, data, 0o644); err != nil {
						return "rt fail: " + err.Error()
					}
				case "writereader":
					if err := aw.WriteReader(path, bytes.NewReader(data)); err != nil {
						return "rt fail: " + err.Error()
					}
				case "writereader-plain", "safewrite-plain", "writereader-eofdata", "safewrite-eofdata":
					// a reader without WriteTo: io.Copy goes through its own 32 KiB buffer, which it reuses for every piece
					// (-eofdata: and the reader returns its last bytes together with io.EOF, as io.Reader allows)
					var rd io.Reader = plainReader{bytes.NewReader(data)}
					if strings.HasSuffix(t[1], "-eofdata") {
						rd = &eofDataReader{data: data}
					}
					var err error
					if strings.HasPrefix(t[1], "writereader") {
						err = aw.WriteReader(path, rd)
					} else {
						err = aw.SafeWriteReader(path, rd)
					}
					if err != nil {
						return "rt fail: " + err.Error()
					}
				case "writereader-partial", "safewrite-partial":
					// a reader that has been read from already: what is written is what is LEFT in it
					rd := bytes.NewReader(append(genBytes(1+atoi(t[4])%9, 77), data...))
					io.CopyN(io.Discard, rd, int64(1+atoi(t[4])%9))
					var err error
					if t[1] == "writereader-partial" {
						err = aw.WriteReader(path, rd)
					} else {
						err = aw.SafeWriteReader(path, rd)
					}
					if err != nil {
						return "rt fail: " + err.Error()
					}
				case "safewrite":
					if err := aw.SafeWriteReader(path, bytes.NewReader(data)); err != nil {
						return "rt fail: " + err.Error()
					}
				case "writefile-over", "writereader-over":
					// the destination exists and holds MORE bytes than the new payload: the write replaces the file
					old := genBytes(atoi(t[3])*2+7, atoi(t[4])+1)
					dir := path[:strings.LastIndex(path, "/")+1]
					if err := st.Fs.MkdirAll(dir, 0o755); err != nil {
						return "rt fail: mkdirall " + err.Error()
					}
					if err := afero.WriteFile(st.Fs, path, old, 0o644); err != nil {
						return "rt fail: setup " + err.Error()
					}
					var err error
					if t[1] == "writefile-over" {
						err = aw.WriteFile(path, data, 0o644)
					} else {
						err = aw.WriteReader(path, bytes.NewReader(data))
					}
					if err != nil {
						return "rt fail: " + err.Error()
					}
				case "safeexisting":
					old := genBytes(atoi(t[3])/2+3, atoi(t[4])+1)
					if err := afero.WriteReader(st.Fs, path, bytes.NewReader(old)); err != nil {
						return "rt fail: setup " + err.Error()
					}
					if err := aw.SafeWriteReader(path, bytes.NewReader(data)); err == nil {
						return "rt fail: SafeWriteReader overwrote an existing file without an error"
					}
					data = old
				}
				got, err := aw.ReadFile(path)
				if err != nil {
					return "rt fail: readfile " + err.Error()
				}
				if !bytes.Equal(got, data) {
					return fmt.Sprintf("rt fail: read back %d bytes, differ from the %d written", len(got), len(data))
				}
				// what an earlier ReadFile returned is the caller's: reading another file must not change it
				if prevGot != nil && !bytes.Equal(prevGot, prevWant) {
					return fmt.Sprintf("rt fail: the %d bytes an earlier ReadFile returned changed when another file was read", len(prevGot))
				}
				prevGot, prevWant = got, append([]byte(nil), data...)
				// and directly from the bottom layer (for wrappers that must write through)
				if st.Name == "bp" || st.Name == "os" {
					got2, err := afero.ReadFile(st.Base, st.P(path))
					if err != nil || !bytes.Equal(got2, data) {
						return "rt fail: bottom layer does not hold the bytes"
					}
				}
				return "rt ok"
			}
			return "bad-op"
		}))
	}
	return out
}

// c17Helpers: the util.go / ioutil.go helpers in one of their two forms
type c17Helpers struct {
	WriteFile            func(string, []byte, os.FileMode) error
	WriteReader          func(string, io.Reader) error
	SafeWriteReader      func(string, io.Reader) error
	ReadFile             func(string) ([]byte, error)
	FileContainsBytes    func(string, []byte) (bool, error)
	FileContainsAnyBytes func(string, [][]byte) (bool, error)
}

func c17Forms(fs afero.Fs, method bool) c17Helpers {
	if method {
		a := afero.Afero{Fs: fs}
		return c17Helpers{a.WriteFile, a.WriteReader, a.SafeWriteReader, a.ReadFile, a.FileContainsBytes, a.FileContainsAnyBytes}
	}
	return c17Helpers{
		func(p string, d []byte, m os.FileMode) error { return afero.WriteFile(fs, p, d, m) },
		func(p string, r io.Reader) error { return afero.WriteReader(fs, p, r) },
		func(p string, r io.Reader) error { return afero.SafeWriteReader(fs, p, r) },
		func(p string) ([]byte, error) { return afero.ReadFile(fs, p) },
		func(p string, b []byte) (bool, error) { return afero.FileContainsBytes(fs, p, b) },
		func(p string, bs [][]byte) (bool, error) { return afero.FileContainsAnyBytes(fs, p, bs) },
	}
}

// eofDataReader returns its last bytes together with io.EOF (and nothing but Read)
type eofDataReader struct {
	data []byte
	off  int
}

func (r *eofDataReader) Read(p []byte) (int, error) {
	n := copy(p, r.data[r.off:])
	r.off += n
	if r.off == len(r.data) {
		return n, io.EOF
	}
	return n, nil
}

// c17Content expands a contains / containsgen line into (content, needle hex tokens)
func c17Content(t []string) ([]byte, []string) {
	if t[0] == "contains" {
		return corr.UnHex(t[1]), t[2:]
	}
	content := bytes.Repeat([]byte{byte(atoi(t[2]))}, atoi(t[1]))
	for _, q := range [][2]string{{t[3], t[4]}, {t[5], t[6]}} {
		if off := atoi(q[0]); off < len(content) {
			copy(content[off:], corr.UnHex(q[1]))
		}
	}
	return content, t[7:]
}

func c17Oracle(c corr.Case, impl []string) (string, int) {
	for i, line := range c.Lines {
		t := strings.Fields(line)
		switch t[0] {
		case "contains", "containsgen":
			content, nds := c17Content(t)
			want := false
			for _, h := range nds {
				n := corr.UnHex(h)
				if len(n) > 0 && bytes.Contains(content, n) {
					want = true
				}
			}
			if impl[i] != fmt.Sprint(want) {
				return fmt.Sprintf("contains: helper says %s, bytes.Contains says %v", impl[i], want), i
			}
		case "rt":
			if impl[i] != "rt ok" {
				return t[1] + ": " + impl[i], i
			}
		case "deep-osl":
			if strings.HasPrefix(impl[i], "fail") {
				return impl[i], i
			}
		}
	}
	return "", -1
}

// straddle: does some occurrence of a needle cross a multiple of half (= 2·L)?  short: is the last chunk short?
func c17Facts(line string) (straddle, short, zero bool) {
	t := strings.Fields(line)
	if t[0] != "contains" && t[0] != "containsgen" {
		return
	}
	content, nds := c17Content(t)
	L := 0
	var ns [][]byte
	for _, h := range nds {
		n := corr.UnHex(h)
		ns = append(ns, n)
		if len(n) > L {
			L = len(n)
		}
		if bytes.IndexByte(n, 0) >= 0 {
			zero = true
		}
	}
	if L == 0 {
		return
	}
	half := 2 * L
	short = len(content)%half != 0
	for _, n := range ns {
		if len(n) == 0 {
			continue
		}
		for s := 0; s+len(n) <= len(content); s++ {
			if bytes.Equal(content[s:s+len(n)], n) && s/half != (s+len(n)-1)/half {
				straddle = true
			}
		}
	}
	return
}

func c17NonTrivial(c corr.Case, impl []string) bool {
	for _, l := range c.Lines {
		s, sh, _ := c17Facts(l)
		if s || sh {
			return true
		}
		if strings.HasPrefix(l, "rt ") {
			return true
		}
	}
	return false
}

func c17Classify(c corr.Case, impl []string, hist map[string]int) {
	for i, l := range c.Lines {
		t := strings.Fields(l)
		hist["op:"+t[0]]++
		if t[0] == "case" {
			hist["stack:"+t[1]]++
		}
		if t[0] == "contains" || t[0] == "containsgen" {
			s, sh, z := c17Facts(l)
			if s {
				hist["branch:straddle"]++
			}
			if sh {
				hist["branch:short-last-chunk"]++
			}
			if z {
				hist["branch:zero-byte-needle"]++
			}
			hist["answer:"+impl[i]]++
		}
		if t[0] == "rt" {
			hist["rt:"+t[1]]++
		}
	}
}

func c17Exhaustive(tier string) []corr.Case {
	var cases []corr.Case
	alpha := []byte{0x00, 'a', 'b'}
	var words func(n int, al []byte) [][]byte
	words = func(n int, al []byte) [][]byte {
		if n == 0 {
			return [][]byte{{}}
		}
		var r [][]byte
		for _, w := range words(n-1, al) {
			for _, ch := range al {
				r = append(r, append(append([]byte{}, w...), ch))
			}
		}
		return r
	}
	add := func(stack string, lines []string) {
		cases = append(cases, corr.Case{Lines: append([]string{"case " + stack}, lines...)})
	}
	// L = 1: every content of length ≤ 8 over {0,a,b}, every 1-byte needle
	var batch []string
	flush := func(stack string) {
		if len(batch) > 0 {
			add(stack, batch)
			batch = nil
		}
	}
	for n := 0; n <= 8; n++ {
		for _, w := range words(n, alpha) {
			for _, ch := range alpha {
				batch = append(batch, fmt.Sprintf("contains %s %s", corr.Hex(w), corr.Hex([]byte{ch})))
				if len(batch) == 40 {
					flush("mem")
				}
			}
		}
	}
	flush("mem")
	// L = 2 (and 3 in thorough): needle placed at every position in every fill, total ≤ 6L+2;
	// fills are a letter, zero bytes, and the needle's own first byte (near misses)
	maxL := 2
	if tier == "thorough" {
		maxL = 3
	}
	for L := 2; L <= maxL; L++ {
		for _, needle := range words(L, alpha) {
			fills := []byte{'c', 0x00, needle[0], needle[L-1]}
			for _, fill := range fills {
				for total := L; total <= 6*L+2; total++ {
					for pos := 0; pos+L <= total; pos++ {
						content := bytes.Repeat([]byte{fill}, total)
						copy(content[pos:], needle)
						batch = append(batch, fmt.Sprintf("contains %s %s", corr.Hex(content), corr.Hex(needle)))
						// near miss: needle with its last byte altered at the same spot
						miss := append([]byte{}, content...)
						miss[pos+L-1] ^= 0x40
						batch = append(batch, fmt.Sprintf("contains %s %s", corr.Hex(miss), corr.Hex(needle)))
						if len(batch) >= 40 {
							flush("mem")
						}
					}
				}
			}
		}
		flush("mem")
		// every content over {a,b} of length ≤ 4L+2 against every needle over {0,a,b} of length ≤ L, two needles at a time
		for n := 0; n <= 4*L+2 && n <= 10; n++ {
			for _, w := range words(n, []byte{'a', 'b'}) {
				for _, nd := range words(L, alpha) {
					batch = append(batch, fmt.Sprintf("contains %s %s %s", corr.Hex(w), corr.Hex(nd), corr.Hex([]byte{nd[0]})+"62"))
					if len(batch) >= 60 {
						flush("mem")
					}
				}
			}
		}
		flush("mem")
	}
	return cases
}

// c17Large: a needle placed so that it straddles, ends at, or starts at offsets k·p − j for block
// sizes p that a buffered reader may use, j up to (k+1)·L: whatever the chunking of the reader, a
// match across a chunk boundary is found; and the two halves of a needle placed p ± d apart are not
// a match.
func c17Large(tier string) []corr.Case {
	var cases []corr.Case
	ps := []int{512, 1024, 4096}
	if tier == "thorough" {
		ps = []int{256, 512, 1024, 2048, 4096, 8192, 16384, 32768, 65536}
	}
	needles := [][]byte{[]byte("N"), []byte("NE"), []byte("NEE"), []byte("NEEDLE"), bytes.Repeat([]byte("Nd"), 40)}
	for _, p := range ps {
		for _, nd := range needles {
			L := len(nd)
			var lines []string
			for k := 1; k <= 3; k++ {
				for j := 0; j <= (k+1)*L+1 && j <= 4*L+8; j++ {
					off := k*p - j
					if off < 0 {
						continue
					}
					total := off + L + 5 + (j*7)%40
					lines = append(lines, fmt.Sprintf("containsgen %d 120 %d %s 0 - %s", total, off, corr.Hex(nd), corr.Hex(nd)))
					if L >= 2 {
						// near miss: the two halves of the needle a block apart (never a match)
						h1, h2 := nd[:L/2], nd[L/2:]
						lines = append(lines, fmt.Sprintf("containsgen %d 120 %d %s %d %s %s", total+p, off, corr.Hex(h1), off+p-2*L+L/2, corr.Hex(h2), corr.Hex(nd)))
					}
				}
			}
			for len(lines) > 0 {
				n := 60
				if n > len(lines) {
					n = len(lines)
				}
				cases = append(cases, corr.Case{Lines: append([]string{"case mem"}, lines[:n]...)})
				// the same through files that hand their bytes out in short, irregular pieces
				cases = append(cases, corr.Case{Lines: append([]string{"case short"}, lines[:n]...)})
				lines = lines[n:]
			}
		}
	}
	return cases
}

func c17Random(r *corr.Rand, tier string) []corr.Case {
	n := 300
	maxLen := 4096
	if tier == "thorough" {
		n, maxLen = 6000, 65536
	}
	sizes := []int{0, 1, 511, 512, 513, 32767, 32768, 32769, 65536}
	if tier == "thorough" {
		sizes = append(sizes, 1<<20)
	}
	var cases []corr.Case
	for i := 0; i < n; i++ {
		rr := r.Fork()
		stack := corr.Pick(rr, c17Stacks)
		var lines []string
		for k := 0; k < 3; k++ {
			// content built from a tiny alphabet so that accidental matches and near misses are common
			al := []byte{0, 'a', 'b', 'c'}[:2+rr.Intn(3)]
			n := rr.Intn(40)
			if rr.Chance(20) {
				n = rr.Intn(maxLen)
			}
			content := make([]byte, n)
			for j := range content {
				content[j] = corr.Pick(rr, al)
			}
			nn := 1 + rr.Intn(3)
			args := ""
			for j := 0; j < nn; j++ {
				ln := 1 + rr.Intn(6)
				var nd []byte
				if rr.Chance(50) && len(content) >= ln {
					s := rr.Intn(len(content) - ln + 1)
					nd = append(nd, content[s:s+ln]...)
					if rr.Chance(30) {
						nd[rr.Intn(ln)] ^= 0x01
					}
				} else {
					for q := 0; q < ln; q++ {
						nd = append(nd, corr.Pick(rr, al))
					}
				}
				args += " " + corr.Hex(nd)
			}
			lines = append(lines, "contains "+corr.Hex(content)+args)
		}
		kinds := []string{"writefile", "writereader", "safewrite", "safeexisting", "writefile-over", "writereader-over", "writereader-partial", "safewrite-partial", "writereader-plain", "safewrite-plain", "writereader-eofdata", "safewrite-eofdata"}
		for k := 0; k < 2; k++ {
			depth := 1 + rr.Intn(3)
			p := ""
			for d := 0; d < depth; d++ {
				p += "/" + corr.Pick(rr, []string{"a", "b", "dir with space", "x.y"})
			}
			p += fmt.Sprintf("/f%d", k)
			lines = append(lines, fmt.Sprintf("rt %s %s %d %d", corr.Pick(rr, kinds), corr.HexS(p), corr.Pick(rr, sizes), rr.Intn(1000)))
		}
		cases = append(cases, corr.Case{Lines: append([]string{"case " + stack}, lines...)})
	}
	return cases
}

func c17Corpus() []corr.Case {
	mk := func(l ...string) corr.Case { return corr.Case{Lines: l} }
	return []corr.Case{
		// S6: stale tail of the buffer ("cccccbcca" does not contain "ab") and the zero needle
		mk("case mem", "contains 636363636362636361 6162", "contains 61 00", "contains 6100 6100", "contains 61 6100"),
		mk("case os", "contains 636363636362636361 6162", "contains 0102030405060708090a 0506"),
		mk("case cow", "rt safeexisting 2f612f66 100 1", "rt writereader 2f6e65772f6465657065722f66 32769 2"),
		mk("case mem", "rt writereader-over 2f612f66 5 1", "rt writefile-over 2f612f67 0 1", "rt writereader-over 2f612f68 40000 3"),
		mk("case cache0", "rt writereader-over 2f612f66 5 1", "rt writefile-over 2f612f67 9 1"),
		mk("case os", "rt writereader-over 2f612f66 5 1", "rt writefile-over 2f612f67 9 1"),
		// contents and needles that are well-formed UTF-8 beyond ASCII (the search is over bytes)
		mk("case mem", "contains e697a5e69cace8aa9ee381aee38386e382ade382b9e38388e38081e38193e38193e381abe9879de3818ce38182e3828ae381bee38199e38082 e9879d", "contains e697a5e69cace8aa9ee381aee38386e382ade382b9e38388e38081e38193e38193e381abe9879de3818ce38182e3828ae381bee38199e38082 e38386e382ade382b9e38388", "contains e697a5e69cace8aa9ee381aee38386e382ade382b9e38388e38081e38193e38193e381abe9879de3818ce38182e3828ae381bee38199e38082 e78cab", "contains 4469652053747261c39f652066c3bc68727420c3bc6265722064656e20466c75c39f20e2809420636166c3a92c206e61c3af76652c20c3bc626572 c39f", "contains 4469652053747261c39f652066c3bc68727420c3bc6265722064656e20466c75c39f20e2809420636166c3a92c206e61c3af76652c20c3bc626572 c3bc626572 78797a", "contains 4469652053747261c39f652066c3bc68727420c3bc6265722064656e20466c75c39f20e2809420636166c3a92c206e61c3af76652c20c3bc626572 c3a9", "contains 4469652053747261c39f652066c3bc68727420c3bc6265722064656e20466c75c39f20e2809420636166c3a92c206e61c3af76652c20c3bc626572 c3", "contains 4469652053747261c39f652066c3bc68727420c3bc6265722064656e20466c75c39f20e2809420636166c3a92c206e61c3af76652c20c3bc626572 9f", "contains e697a5e69cace8aa9ee381aee38386e382ade382b9e38388e38081e38193e38193e381abe9879de3818ce38182e3828ae381bee38199e38082e697a5e69cace8aa9ee381aee38386e382ade382b9e38388e38081e38193e38193e381abe9879de3818ce38182e3828ae381bee38199e38082e697a5e69cace8aa9ee381aee38386e382ade382b9e38388e38081e38193e38193e381abe9879de3818ce38182e3828ae381bee38199e38082e697a5e69cace8aa9ee381aee38386e382ade382b9e38388e38081e38193e38193e381abe9879de3818ce38182e3828ae381bee38199e38082e697a5e69cace8aa9ee381aee38386e382ade382b9e38388e38081e38193e38193e381abe9879de3818ce38182e3828ae381bee38199e38082e697a5e69cace8aa9ee381aee38386e382ade382b9e38388e38081e38193e38193e381abe9879de3818ce38182e3828ae381bee38199e38082e697a5e69cace8aa9ee381aee38386e382ade382b9e38388e38081e38193e38193e381abe9879de3818ce38182e3828ae381bee38199e38082e697a5e69cace8aa9ee381aee38386e382ade382b9e38388e38081e38193e38193e381abe9879de3818ce38182e3828ae381bee38199e38082e697a5e69cace8aa9ee381aee38386e382ade382b9e38388e38081e38193e38193e381abe9879de3818ce38182e3828ae381bee38199e38082e697a5e69cace8aa9ee381aee38386e382ade382b9e38388e38081e38193e38193e381abe9879de3818ce38182e3828ae381bee38199e38082e697a5e69cace8aa9ee381aee38386e382ade382b9e38388e38081e38193e38193e381abe9879de3818ce38182e3828ae381bee38199e38082e697a5e69cace8aa9ee381aee38386e382ade382b9e38388e38081e38193e38193e381abe9879de3818ce38182e3828ae381bee38199e38082e697a5e69cace8aa9ee381aee38386e382ade382b9e38388e38081e38193e38193e381abe9879de3818ce38182e3828ae381bee38199e38082e697a5e69cace8aa9ee381aee38386e382ade382b9e38388e38081e38193e38193e381abe9879de3818ce38182e3828ae381bee38199e38082e697a5e69cace8aa9ee381aee38386e382ade382b9e38388e38081e38193e38193e381abe9879de3818ce38182e3828ae381bee38199e38082e697a5e69cace8aa9ee381aee38386e382ade382b9e38388e38081e38193e38193e381abe9879de3818ce38182e3828ae381bee38199e38082e697a5e69cace8aa9ee381aee38386e382ade382b9e38388e38081e38193e38193e381abe9879de3818ce38182e3828ae381bee38199e38082e697a5e69cace8aa9ee381aee38386e382ade382b9e38388e38081e38193e38193e381abe9879de3818ce38182e3828ae381bee38199e38082e697a5e69cace8aa9ee381aee38386e382ade382b9e38388e38081e38193e38193e381abe9879de3818ce38182e3828ae381bee38199e38082e697a5e69cace8aa9ee381aee38386e382ade382b9e38388e38081e38193e38193e381abe9879de3818ce38182e3828ae381bee38199e38082e697a5e69cace8aa9ee381aee38386e382ade382b9e38388e38081e38193e38193e381abe9879de3818ce38182e3828ae381bee38199e38082e697a5e69cace8aa9ee381aee38386e382ade382b9e38388e38081e38193e38193e381abe9879de3818ce38182e3828ae381bee38199e38082e697a5e69cace8aa9ee381aee38386e382ade382b9e38388e38081e38193e38193e381abe9879de3818ce38182e3828ae381bee38199e38082e697a5e69cace8aa9ee381aee38386e382ade382b9e38388e38081e38193e38193e381abe9879de3818ce38182e3828ae381bee38199e38082e697a5e69cace8aa9ee381aee38386e382ade382b9e38388e38081e38193e38193e381abe9879de3818ce38182e3828ae381bee38199e38082e697a5e69cace8aa9ee381aee38386e382ade382b9e38388e38081e38193e38193e381abe9879de3818ce38182e3828ae381bee38199e38082e697a5e69cace8aa9ee381aee38386e382ade382b9e38388e38081e38193e38193e381abe9879de3818ce38182e3828ae381bee38199e38082e697a5e69cace8aa9ee381aee38386e382ade382b9e38388e38081e38193e38193e381abe9879de3818ce38182e3828ae381bee38199e38082e697a5e69cace8aa9ee381aee38386e382ade382b9e38388e38081e38193e38193e381abe9879de3818ce38182e3828ae381bee38199e38082e697a5e69cace8aa9ee381aee38386e382ade382b9e38388e38081e38193e38193e381abe9879de3818ce38182e3828ae381bee38199e38082e697a5e69cace8aa9ee381aee38386e382ade382b9e38388e38081e38193e38193e381abe9879de3818ce38182e3828ae381bee38199e38082e697a5e69cace8aa9ee381aee38386e382ade382b9e38388e38081e38193e38193e381abe9879de3818ce38182e3828ae381bee38199e38082e697a5e69cace8aa9ee381aee38386e382ade382b9e38388e38081e38193e38193e381abe9879de3818ce38182e3828ae381bee38199e38082e697a5e69cace8aa9ee381aee38386e382ade382b9e38388e38081e38193e38193e381abe9879de3818ce38182e3828ae381bee38199e38082e697a5e69cace8aa9ee381aee38386e382ade382b9e38388e38081e38193e38193e381abe9879de3818ce38182e3828ae381bee38199e38082e697a5e69cace8aa9ee381aee38386e382ade382b9e38388e38081e38193e38193e381abe9879de3818ce38182e3828ae381bee38199e38082e697a5e69cace8aa9ee381aee38386e382ade382b9e38388e38081e38193e38193e381abe9879de3818ce38182e3828ae381bee38199e38082e697a5e69cace8aa9ee381aee38386e382ade382b9e38388e38081e38193e38193e381abe9879de3818ce38182e3828ae381bee38199e38082e697a5e69cace8aa9ee381aee38386e382ade382b9e38388e38081e38193e38193e381abe9879de3818ce38182e3828ae381bee38199e38082e697a5e69cace8aa9ee381aee38386e382ade382b9e38388e38081e38193e38193e381abe9879de3818ce38182e3828ae381bee38199e38082 e9879d", "contains e697a5e69cace8aa9ee381aee38386e382ade382b9e38388e38081e38193e38193e381abe9879de3818ce38182e3828ae381bee38199e38082e697a5e69cace8aa9ee381aee38386e382ade382b9e38388e38081e38193e38193e381abe9879de3818ce38182e3828ae381bee38199e38082e697a5e69cace8aa9ee381aee38386e382ade382b9e38388e38081e38193e38193e381abe9879de3818ce38182e3828ae381bee38199e38082e697a5e69cace8aa9ee381aee38386e382ade382b9e38388e38081e38193e38193e381abe9879de3818ce38182e3828ae381bee38199e38082e697a5e69cace8aa9ee381aee38386e382ade382b9e38388e38081e38193e38193e381abe9879de3818ce38182e3828ae381bee38199e38082e697a5e69cace8aa9ee381aee38386e382ade382b9e38388e38081e38193e38193e381abe9879de3818ce38182e3828ae381bee38199e38082e697a5e69cace8aa9ee381aee38386e382ade382b9e38388e38081e38193e38193e381abe9879de3818ce38182e3828ae381bee38199e38082e697a5e69cace8aa9ee381aee38386e382ade382b9e38388e38081e38193e38193e381abe9879de3818ce38182e3828ae381bee38199e38082e697a5e69cace8aa9ee381aee38386e382ade382b9e38388e38081e38193e38193e381abe9879de3818ce38182e3828ae381bee38199e38082e697a5e69cace8aa9ee381aee38386e382ade382b9e38388e38081e38193e38193e381abe9879de3818ce38182e3828ae381bee38199e38082e697a5e69cace8aa9ee381aee38386e382ade382b9e38388e38081e38193e38193e381abe9879de3818ce38182e3828ae381bee38199e38082e697a5e69cace8aa9ee381aee38386e382ade382b9e38388e38081e38193e38193e381abe9879de3818ce38182e3828ae381bee38199e38082e697a5e69cace8aa9ee381aee38386e382ade382b9e38388e38081e38193e38193e381abe9879de3818ce38182e3828ae381bee38199e38082e697a5e69cace8aa9ee381aee38386e382ade382b9e38388e38081e38193e38193e381abe9879de3818ce38182e3828ae381bee38199e38082e697a5e69cace8aa9ee381aee38386e382ade382b9e38388e38081e38193e38193e381abe9879de3818ce38182e3828ae381bee38199e38082e697a5e69cace8aa9ee381aee38386e382ade382b9e38388e38081e38193e38193e381abe9879de3818ce38182e3828ae381bee38199e38082e697a5e69cace8aa9ee381aee38386e382ade382b9e38388e38081e38193e38193e381abe9879de3818ce38182e3828ae381bee38199e38082e697a5e69cace8aa9ee381aee38386e382ade382b9e38388e38081e38193e38193e381abe9879de3818ce38182e3828ae381bee38199e38082e697a5e69cace8aa9ee381aee38386e382ade382b9e38388e38081e38193e38193e381abe9879de3818ce38182e3828ae381bee38199e38082e697a5e69cace8aa9ee381aee38386e382ade382b9e38388e38081e38193e38193e381abe9879de3818ce38182e3828ae381bee38199e38082e697a5e69cace8aa9ee381aee38386e382ade382b9e38388e38081e38193e38193e381abe9879de3818ce38182e3828ae381bee38199e38082e697a5e69cace8aa9ee381aee38386e382ade382b9e38388e38081e38193e38193e381abe9879de3818ce38182e3828ae381bee38199e38082e697a5e69cace8aa9ee381aee38386e382ade382b9e38388e38081e38193e38193e381abe9879de3818ce38182e3828ae381bee38199e38082e697a5e69cace8aa9ee381aee38386e382ade382b9e38388e38081e38193e38193e381abe9879de3818ce38182e3828ae381bee38199e38082e697a5e69cace8aa9ee381aee38386e382ade382b9e38388e38081e38193e38193e381abe9879de3818ce38182e3828ae381bee38199e38082e697a5e69cace8aa9ee381aee38386e382ade382b9e38388e38081e38193e38193e381abe9879de3818ce38182e3828ae381bee38199e38082e697a5e69cace8aa9ee381aee38386e382ade382b9e38388e38081e38193e38193e381abe9879de3818ce38182e3828ae381bee38199e38082e697a5e69cace8aa9ee381aee38386e382ade382b9e38388e38081e38193e38193e381abe9879de3818ce38182e3828ae381bee38199e38082e697a5e69cace8aa9ee381aee38386e382ade382b9e38388e38081e38193e38193e381abe9879de3818ce38182e3828ae381bee38199e38082e697a5e69cace8aa9ee381aee38386e382ade382b9e38388e38081e38193e38193e381abe9879de3818ce38182e3828ae381bee38199e38082e697a5e69cace8aa9ee381aee38386e382ade382b9e38388e38081e38193e38193e381abe9879de3818ce38182e3828ae381bee38199e38082e697a5e69cace8aa9ee381aee38386e382ade382b9e38388e38081e38193e38193e381abe9879de3818ce38182e3828ae381bee38199e38082e697a5e69cace8aa9ee381aee38386e382ade382b9e38388e38081e38193e38193e381abe9879de3818ce38182e3828ae381bee38199e38082e697a5e69cace8aa9ee381aee38386e382ade382b9e38388e38081e38193e38193e381abe9879de3818ce38182e3828ae381bee38199e38082e697a5e69cace8aa9ee381aee38386e382ade382b9e38388e38081e38193e38193e381abe9879de3818ce38182e3828ae381bee38199e38082e697a5e69cace8aa9ee381aee38386e382ade382b9e38388e38081e38193e38193e381abe9879de3818ce38182e3828ae381bee38199e38082e697a5e69cace8aa9ee381aee38386e382ade382b9e38388e38081e38193e38193e381abe9879de3818ce38182e3828ae381bee38199e38082e697a5e69cace8aa9ee381aee38386e382ade382b9e38388e38081e38193e38193e381abe9879de3818ce38182e3828ae381bee38199e38082e697a5e69cace8aa9ee381aee38386e382ade382b9e38388e38081e38193e38193e381abe9879de3818ce38182e3828ae381bee38199e38082e697a5e69cace8aa9ee381aee38386e382ade382b9e38388e38081e38193e38193e381abe9879de3818ce38182e3828ae381bee38199e38082 e3818ce38182e3828ae381bee38199e38082e697a5e69cac"),
		// names that merely begin with two dots, below a BasePathFs and elsewhere
		mk("case bp", "rt writereader "+corr.HexS("/..data/f.bin")+" 9 1", "rt safewrite "+corr.HexS("/..2024_01_01.bin")+" 5 2", "rt writefile "+corr.HexS("/.../g")+" 7 3", "rt safeexisting "+corr.HexS("/..data/keep")+" 8 4"),
		mk("case mem", "rt writereader "+corr.HexS("/..data/f.bin")+" 9 1", "rt safewrite "+corr.HexS("/..x")+" 5 2"),
		// a union whose overlay keeps real directories, files several directories deep
		mk("case mem", "deep-osl cow"),
		// a name without any directory part; payloads larger than io.Copy's buffer through a reader without WriteTo
		mk("case mem", "rt safeexisting "+corr.HexS("keep.txt")+" 40 1", "rt writereader "+corr.HexS("bare.bin")+" 9 2", "rt safewrite "+corr.HexS("bare2.bin")+" 9 3",
			"rt writereader-plain 2f612f71 32769 4", "rt safewrite-plain 2f612f72 100000 5", "rt writereader-plain 2f612f73 5 6"),
		mk("case os", "rt safeexisting "+corr.HexS("keep.txt")+" 40 1", "rt writereader-plain 2f612f71 70000 4"),
		// a reader that hands its last bytes out together with io.EOF
		mk("case mem", "rt writereader-eofdata 2f612f71 10 4", "rt safewrite-eofdata 2f612f72 513 5", "rt writereader-eofdata 2f612f73 40000 6", "rt safewrite-eofdata 2f612f74 1 7", "rt writereader-eofdata 2f612f75 0 8"),
		// the existing file survives SafeWriteReader in both forms of the helper (function, method of afero.Afero)
		mk("case mem", "rt safeexisting 2f612f71 40 1", "rt safeexisting 2f612f72 40 2", "rt safeexisting 2f612f73 40 3", "rt safeexisting 2f612f74 40 4", "rt safeexisting 2f612f75 41 5", "rt safeexisting 2f612f76 42 6"),
		mk("case cow", "rt safeexisting "+corr.HexS("keep.txt")+" 40 1", "rt safewrite-plain 2f612f72 40000 5"),
		mk("case mem", "rt writereader-partial 2f612f70 40 3", "rt safewrite-partial 2f612f71 0 4", "rt writereader-partial 2f612f72 40000 8"),
		mk("case cow", "rt writereader-partial 2f612f70 40 3", "rt safewrite-partial 2f612f71 9 4"),
		// the directory part is created as spelled: "static/../public" needs static as well as public
		mk("case osraw", "rt writereader "+corr.HexS("/t/site/static/../public/f.bin")+" 100 1", "rt safewrite "+corr.HexS("/t/s2/static/../public/g.bin")+" 9 2",
			"rt writereader "+corr.HexS("/t/./a//b/f")+" 5 3", "rt safeexisting "+corr.HexS("/t/s3/x/../y/h.bin")+" 40 4", "rt writefile-over "+corr.HexS("/t/w/f")+" 9 1"),
	}
}

func C17() *corr.Engine {
	return &corr.Engine{
		ID: "C17", DriverEngine: "contains",
		Corpus: c17Corpus, Exhaustive: func(tier string) []corr.Case { return append(c17Exhaustive(tier), c17Large(tier)...) }, Random: c17Random,
		RunImpl: c17RunImpl, Oracle: c17Oracle, NonTrivial: c17NonTrivial, Classify: c17Classify,
		Rule: "contains cases: exhaustive small alphabets/needle placements + random; non-trivial = a match straddles a 2L window boundary, or the last chunk is short, or the case holds a write/read round trip; distinct by script hash",
		Signature: func(c corr.Case, impl []string, what string, line int) string {
			return "C17:" + strings.SplitN(what, ":", 2)[0]
		},
		CompareLine: func(impl, model string) bool { return model == "unmodelled" },
	}
}
