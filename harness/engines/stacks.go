package engines

import (
	"os"
	"path/filepath"
	"regexp"
	"strings"
	"time"

	"github.com/spf13/afero"
)

// Stack is a named afero stack from the fixed menu of DESIGN.md §3.1, with direct access to
// its parts so that oracles can snapshot the layers behind the wrapper.
type Stack struct {
	Name    string
	Fs      afero.Fs // what the script talks to
	Base    afero.Fs // bottom layer (mem or os), direct access
	Layer   afero.Fs // overlay / cache layer, if any
	Root    string   // where script path "/" lives inside Base ("" = identity)
	Cleanup func()
}

// P maps a script path to the path inside s.Base.
func (s *Stack) P(p string) string {
	if s.Root == "" {
		return p
	}
	return filepath.Join(s.Root, filepath.Clean("/"+p))
}

func NewStack(name string) *Stack {
	switch name {
	case "mem":
		m := afero.NewMemMapFs()
		return &Stack{Name: name, Fs: m, Base: m, Cleanup: func() {}}
	case "os":
		dir, err := os.MkdirTemp("", "verif-os-")
		if err != nil {
			panic(err)
		}
		o := afero.NewOsFs()
		return &Stack{Name: name, Fs: &rootedFs{o, dir, false}, Base: o, Root: dir, Cleanup: func() { os.RemoveAll(dir) }}
	case "short": // an in-memory file system whose files hand data out in short, irregular pieces (as io.Reader allows)
		m := afero.NewMemMapFs()
		return &Stack{Name: name, Fs: &shortFs{m}, Base: m, Cleanup: func() {}}
	case "osraw": // the OS file system with names handed on as spelled (the kernel resolves "x/../y" through x)
		dir, err := os.MkdirTemp("", "verif-osraw-")
		if err != nil {
			panic(err)
		}
		o := afero.NewOsFs()
		return &Stack{Name: name, Fs: &rootedFs{o, dir, true}, Base: o, Root: dir, Cleanup: func() { os.RemoveAll(dir) }}
	case "bp":
		m := afero.NewMemMapFs()
		m.MkdirAll("/base", 0o755)
		return &Stack{Name: name, Fs: afero.NewBasePathFs(m, "/base"), Base: m, Root: "/base", Cleanup: func() {}}
	case "ro":
		m := afero.NewMemMapFs()
		return &Stack{Name: name, Fs: afero.NewReadOnlyFs(m), Base: m, Cleanup: func() {}}
	case "cow":
		b, l := afero.NewMemMapFs(), afero.NewMemMapFs()
		return &Stack{Name: name, Fs: afero.NewCopyOnWriteFs(b, l), Base: b, Layer: l, Cleanup: func() {}}
	case "cache0":
		b, l := afero.NewMemMapFs(), afero.NewMemMapFs()
		return &Stack{Name: name, Fs: afero.NewCacheOnReadFs(b, l, 0), Base: b, Layer: l, Cleanup: func() {}}
	case "cache1h":
		b, l := afero.NewMemMapFs(), afero.NewMemMapFs()
		return &Stack{Name: name, Fs: afero.NewCacheOnReadFs(b, l, time.Hour), Base: b, Layer: l, Cleanup: func() {}}
	case "re":
		m := afero.NewMemMapFs()
		return &Stack{Name: name, Fs: afero.NewRegexpFs(m, regexp.MustCompile(`\.txt$`)), Base: m, Cleanup: func() {}}
	}
	panic("unknown stack " + name)
}

// rootedFs maps every name under a directory of the real OS file system *without* using
// BasePathFs (which is itself under test): names are cleaned as rooted paths first.
type rootedFs struct {
	afero.Fs
	dir string
	raw bool // hand the name on as spelled (the caller keeps ".." elements inside the directory)
}

func (r *rootedFs) p(name string) string {
	if r.raw {
		return r.dir + "/" + strings.TrimLeft(name, "/")
	}
	return filepath.Join(r.dir, filepath.Clean("/"+name))
}

func (r *rootedFs) Create(name string) (afero.File, error) { return r.Fs.Create(r.p(name)) }
func (r *rootedFs) Mkdir(name string, perm os.FileMode) error {
	return r.Fs.Mkdir(r.p(name), perm)
}
func (r *rootedFs) MkdirAll(name string, perm os.FileMode) error {
	return r.Fs.MkdirAll(r.p(name), perm)
}
func (r *rootedFs) Open(name string) (afero.File, error) { return r.Fs.Open(r.p(name)) }
func (r *rootedFs) OpenFile(name string, flag int, perm os.FileMode) (afero.File, error) {
	return r.Fs.OpenFile(r.p(name), flag, perm)
}
func (r *rootedFs) Remove(name string) error    { return r.Fs.Remove(r.p(name)) }
func (r *rootedFs) RemoveAll(name string) error { return r.Fs.RemoveAll(r.p(name)) }
func (r *rootedFs) Rename(a, b string) error    { return r.Fs.Rename(r.p(a), r.p(b)) }
func (r *rootedFs) Stat(name string) (os.FileInfo, error) {
	return r.Fs.Stat(r.p(name))
}
func (r *rootedFs) Chmod(name string, m os.FileMode) error { return r.Fs.Chmod(r.p(name), m) }
func (r *rootedFs) Chown(name string, u, g int) error      { return r.Fs.Chown(r.p(name), u, g) }
func (r *rootedFs) Chtimes(name string, a, m time.Time) error {
	return r.Fs.Chtimes(r.p(name), a, m)
}

// shortFs: Read on its files returns fewer bytes than asked for, in a fixed irregular rhythm, before the end of
// the file is reached — legal for an io.Reader, and what compressed or remote files do.
type shortFs struct{ afero.Fs }

type shortFile struct {
	afero.File
	k int
}

var shortSteps = []int{1, 7, 2, 13, 3, 64, 5, 1000, 4, 31}

func (f *shortFile) Read(b []byte) (int, error) {
	n := shortSteps[f.k%len(shortSteps)]
	f.k++
	if n > len(b) {
		n = len(b)
	}
	return f.File.Read(b[:n])
}

func (s *shortFs) Open(name string) (afero.File, error) {
	f, err := s.Fs.Open(name)
	if err != nil {
		return nil, err
	}
	return &shortFile{File: f}, nil
}

func (s *shortFs) OpenFile(name string, flag int, perm os.FileMode) (afero.File, error) {
	f, err := s.Fs.OpenFile(name, flag, perm)
	if err != nil {
		return nil, err
	}
	return &shortFile{File: f}, nil
}
