package engines

import "verifharness/corr"

// RepoDir is the afero working tree the harness was built against (for engines that read sources).
var RepoDir = "/repo"

// All maps a property id to its engine constructor.
var All = map[string]func() *corr.Engine{
	"C02": C02,
	"C17": C17,
	"C08": C08,
	"C01": C01,
	"C07": C07,
	"C09": C09,
	"C13": C13,
	"C14": C14,
	"C15": C15,
	"C16": C16,
	"C10": C10,
	"C11": C11,
	"C12": C12,
	"C05": C05,
	"C06": C06,
}
