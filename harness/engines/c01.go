package engines

import (
	"bytes"
	"fmt"
	"os"
	"path/filepath"
	"sort"
	"strings"

	"github.com/spf13/afero"

	"verifharness/corr"
)

// ---------------------------------------------------------------------------------------
// C01 — MemMapFs matches the OS filesystem on every portable program.
// Script: the Fs-level language (engine `memfs`).  RunImpl = real MemMapFs;
// Oracle = the same script on a real OS directory (OsFs twin), compared under the
// property's observables.  Programs are well-formed by construction (shadow state).
// ---------------------------------------------------------------------------------------

const (
	oWRONLY = 1
	oRDWR   = 2
	oCREATE = 0x40
	oEXCL   = 0x80
	oTRUNC  = 0x200
)

func c01RunImpl(c corr.Case) []string {
	fs := afero.NewMemMapFs()
	r := NewRunner(fs)
	out := make([]string, 0, len(c.Lines))
	for _, line := range c.Lines {
		t := strings.Fields(line)
		out = append(out, guard(func() string {
			switch t[0] {
			case "case":
				r.CloseAll()
				fs = afero.NewMemMapFs()
				r = NewRunner(fs)
				return "case"
			case "snapshot":
				return SnapLine(SnapshotMem(fs))
			}
			return r.Exec(t)
		}))
	}
	return out
}

// canonical form of a result line for the mem-vs-os comparison
func c01Canon(op string, line string, isOS bool) string {
	f := strings.Fields(line)
	if len(f) == 0 {
		return line
	}
	switch {
	case f[0] == "info":
		// name, dir flag; size for files only; perm bits only for statperm
		m := map[string]string{}
		for _, kv := range f[1:] {
			p := strings.SplitN(kv, "=", 2)
			m[p[0]] = p[1]
		}
		s := "info name=" + m["name"] + " dir=" + m["dir"]
		if op == "h.stat" {
			s = "info dir=" + m["dir"] // os.File keeps the name it was opened with, afero follows renames
		}
		if m["dir"] == "false" {
			s += " size=" + m["size"]
		}
		if op == "statperm" {
			s += fmt.Sprintf(" perm=%o", atoi(m["mode"])&0o777)
		}
		return s
	case strings.HasPrefix(f[0], "names=") || strings.HasPrefix(f[0], "infos="):
		// a page: the number of entries and the error class; the names are compared as a set per handle
		body := f[0][strings.Index(f[0], "=")+1:]
		n := 0
		if body != "" {
			n = len(strings.Split(body, ","))
		}
		return fmt.Sprintf("page n=%d %s", n, f[1])
	case strings.HasPrefix(f[0], "h=") && len(f) > 1:
		return f[0] + " " + f[1]
	}
	if op == "h.write" || op == "h.writestring" || op == "h.readfrom" || op == "h.writeat" || op == "h.trunc" {
		// refused for want of write access: EBADF / EINVAL from the OS, "file handle is read only" from afero
		for _, e := range []string{"rohandle", "badf", "inval"} {
			line = strings.Replace(line, "err:"+e, "err:denied", 1)
		}
	}
	return line
}

func pageNames(line string) []string {
	f := strings.Fields(line)
	if len(f) == 0 || !(strings.HasPrefix(f[0], "names=") || strings.HasPrefix(f[0], "infos=")) {
		return nil
	}
	body := f[0][strings.Index(f[0], "=")+1:]
	if body == "" {
		return nil
	}
	return strings.Split(body, ",")
}

func osTwinRun(c corr.Case) ([]string, []Node, func()) {
	dir, err := os.MkdirTemp("", "verif-c01-")
	if err != nil {
		panic(err)
	}
	syscallUmask()
	fs := &rootedFs{afero.NewOsFs(), dir, false}
	r := NewRunner(fs)
	var out []string
	var snap []Node
	for _, line := range c.Lines {
		t := strings.Fields(line)
		out = append(out, guard(func() string {
			switch t[0] {
			case "case":
				return "case"
			case "snapshot":
				snap = SnapshotWalk(afero.NewOsFs(), dir)
				for i := range snap {
					snap[i].Path = "/" + strings.TrimPrefix(strings.TrimPrefix(snap[i].Path, dir), "/")
				}
				return "snap"
			}
			return r.Exec(t)
		}))
	}
	return out, snap, func() { r.CloseAll(); os.RemoveAll(dir) }
}

func c01Oracle(c corr.Case, impl []string) (string, int) {
	if !c01WF(c) {
		return "", -1 // outside the property's domain (can only happen while shrinking)
	}
	osOut, _, cleanup := osTwinRun(c)
	defer cleanup()
	// per-handle listing sets
	memPages, osPages := map[string][]string{}, map[string][]string{}
	for i, line := range c.Lines {
		t := strings.Fields(line)
		op := t[0]
		if impl[i] == "panic" {
			return "call panics: " + op, i
		}
		if op == "h.name" {
			continue // os reports the name given at open, afero the current cleaned name: not an observable of C01
		}
		if op == "snapshot" {
			// compare trees: mem snapshot line vs a fresh OS walk
			memTree := parseSnap(impl[i])
			_, osSnap, cl := osTwinRun(corr.Case{Lines: c.Lines[:i+1]})
			cl()
			if d := diffTrees(memTree, osSnap); d != "" {
				return "tree differs from the OS after this program: " + d, i
			}
			continue
		}
		a, b := c01Canon(op, impl[i], false), c01Canon(op, osOut[i], true)
		if a != b {
			return fmt.Sprintf("%s: MemMapFs %q, OS %q", op, a, b), i
		}
		if op == "h.readdir" || op == "h.readdirnames" {
			memPages[t[1]] = append(memPages[t[1]], pageNames(impl[i])...)
			osPages[t[1]] = append(osPages[t[1]], pageNames(osOut[i])...)
			// the two sides hand the entries out in different orders (the OS in directory order), and a handle
			// may mix Readdir (name and kind) with Readdirnames (name only): compare the names, and the
			// kind of a name wherever both sides reported one
			split := func(es []string) (names []string, kind map[string]string) {
				kind = map[string]string{}
				for _, e := range es {
					p := strings.SplitN(e, "/", 2)
					names = append(names, p[0])
					if len(p) == 2 {
						kind[p[0]] = p[1]
					}
				}
				sort.Strings(names)
				return
			}
			ma, mk := split(memPages[t[1]])
			oa, ok := split(osPages[t[1]])
			for n, k := range mk {
				if k2, both := ok[n]; both && k2 != k {
					return fmt.Sprintf("listing through handle %s: entry %s is %q for MemMapFs and %q for the OS", t[1], n, k, k2), i
				}
			}
			// after every page the *multiset so far* must have equal size; at EOF / full listing the sets must agree
			full := atoi(t[2]) <= 0 || strings.HasSuffix(impl[i], "err:eof")
			if full && strings.Join(ma, ",") != strings.Join(oa, ",") {
				return fmt.Sprintf("listing through handle %s: MemMapFs %v, OS %v", t[1], ma, oa), i
			}
			for k := 1; k < len(ma); k++ {
				if ma[k] == ma[k-1] {
					return "listing pages repeat an entry: " + ma[k], i
				}
			}
		}
	}
	return "", -1
}

func parseSnap(line string) []Node {
	line = strings.TrimPrefix(line, "snap ")
	var ns []Node
	if line == "" || line == "snap" {
		return ns
	}
	for _, e := range strings.Split(line, "|") {
		p := strings.Split(e, ":")
		if len(p) < 6 {
			continue
		}
		n := Node{Path: string(corr.UnHex(p[0])), Dir: p[1] == "d", Size: atoi64(p[2]), Mode: uint32(atoi64(p[3])), Data: corr.UnHex(p[4])}
		if p[5] != "" {
			for _, l := range strings.Split(p[5], ",") {
				n.Listing = append(n.Listing, string(corr.UnHex(l)))
			}
		}
		ns = append(ns, n)
	}
	return ns
}

func diffTrees(memT, osT []Node) string {
	mm, om := map[string]Node{}, map[string]Node{}
	for _, n := range memT {
		mm[n.Path] = n
	}
	for _, n := range osT {
		om[n.Path] = n
	}
	for p, n := range mm {
		o, ok := om[p]
		if !ok {
			return fmt.Sprintf("%s exists only in MemMapFs", p)
		}
		if n.Dir != o.Dir {
			return fmt.Sprintf("%s: kind differs", p)
		}
		if !n.Dir && !bytes.Equal(n.Data, o.Data) {
			return fmt.Sprintf("%s: content %x vs OS %x", p, n.Data, o.Data)
		}
		if n.Dir && strings.Join(n.Listing, ",") != strings.Join(o.Listing, ",") {
			return fmt.Sprintf("%s: listing %v vs OS %v", p, n.Listing, o.Listing)
		}
	}
	for p := range om {
		if _, ok := mm[p]; !ok {
			return fmt.Sprintf("%s exists only on the OS", p)
		}
	}
	return ""
}

// ---- well-formedness (the property's own preconditions, made decidable) ----
//
// One state machine, `wf`, is used three ways: the random generator proposes a line and keeps
// it only if `apply` accepts it; the enumerator does the same; and the oracle re-validates a
// (shrunk) case before judging it, so that shrinking can never leave the property's domain.

type wfHandle struct {
	dir, readable, writable, closed, gone bool
	path                                  string
	pages                                 int
	seenAt                                int
}

type wf struct {
	kind    map[string]byte // cleaned path -> 'd' | 'f'
	handles []*wfHandle
	dirty   map[string]int // directory -> mutation counter (for the listing rule)
	// paths whose permission bits were set by an explicit, successful Chmod and have belonged to the same
	// file object ever since (creation modes are subject to the process umask on the OS side and are not
	// compared; open(2) never changes the mode of a file that exists)
	chmoded map[string]bool
}

func newWF() *wf {
	return &wf{kind: map[string]byte{"/": 'd'}, dirty: map[string]int{}, chmoded: map[string]bool{}}
}

func (s *wf) clone() *wf {
	c := &wf{kind: map[string]byte{}, dirty: map[string]int{}, chmoded: map[string]bool{}}
	for k := range s.chmoded {
		c.chmoded[k] = true
	}
	for k, v := range s.kind {
		c.kind[k] = v
	}
	for k, v := range s.dirty {
		c.dirty[k] = v
	}
	for _, h := range s.handles {
		hh := *h
		c.handles = append(c.handles, &hh)
	}
	return c
}

// resolve a spelled path the way the OS does (physically): every component that is stepped
// *through* (followed by another component or by "..") must be an existing directory, except
// that trailing components may be missing. Returns the cleaned path.
func (s *wf) resolve(p string) (string, bool) {
	if !strings.HasPrefix(p, "/") {
		return "", false // programs are all-rooted
	}
	cur := "/"
	segs := strings.Split(p, "/")
	for i, sg := range segs {
		switch sg {
		case "", ".":
			// "x/." and "x/" require x to be a directory
			if i > 0 && cur != "/" && s.kind[cur] != 'd' {
				return "", false
			}
		case "..":
			if s.kind[cur] != 'd' {
				return "", false
			}
			cur = filepath.Dir(cur)
		default:
			if k, ex := s.kind[cur]; !ex && i > 0 {
				_ = k // stepping below a missing component: allowed lexically only if nothing but normal components follow
			} else if ex && k == 'f' {
				return "", false // no proper ancestor is a regular file
			}
			cur = filepath.Join(cur, sg)
		}
	}
	// a missing intermediate followed by ".." was rejected above; but a missing intermediate
	// followed by normal components is fine (the call reports not-exist on both sides)
	return cur, true
}

func (s *wf) parentIsDir(p string) bool { return s.kind[filepath.Dir(p)] == 'd' }
func (s *wf) hasChildren(p string) bool {
	for q := range s.kind {
		if q != p && strings.HasPrefix(q, strings.TrimSuffix(p, "/")+"/") {
			return true
		}
	}
	return false
}
func (s *wf) touch(p string) { s.dirty[filepath.Dir(p)]++ }
func (s *wf) ancestorsOK(p string) bool {
	for d := filepath.Dir(p); ; d = filepath.Dir(d) {
		if s.kind[d] == 'f' {
			return false
		}
		if d == "/" {
			return true
		}
	}
}

// apply checks one script line against the preconditions and, if accepted, updates the state.
func (s *wf) apply(t []string) bool {
	ok := s.apply1(t, "")
	// a path that no longer exists carries no explicit mode
	for q := range s.chmoded {
		if _, ex := s.kind[q]; !ex {
			delete(s.chmoded, q)
		}
	}
	return ok
}

// unlink marks handles whose file went away under path p (or below it)
func (s *wf) unlink(p string) {
	for _, h := range s.handles {
		if h.path == p || strings.HasPrefix(h.path, p+"/") {
			h.gone = true
		}
	}
}

func (s *wf) apply1(t []string, lastChmod string) bool {
	arg := func(i int) string { return string(corr.UnHex(t[i])) }
	switch t[0] {
	case "case", "snapshot", "now":
		return true
	case "mkdir":
		p, ok := s.resolve(arg(1))
		if !ok || !s.parentIsDir(p) || p == "/" {
			return false
		}
		if _, ex := s.kind[p]; !ex {
			s.kind[p] = 'd'
			s.touch(p)
		}
		return true
	case "mkdirall":
		p, ok := s.resolve(arg(1))
		if !ok {
			return false
		}
		for q := p; q != "/"; q = filepath.Dir(q) {
			if s.kind[q] == 'f' {
				return false
			}
		}
		for q := p; q != "/"; q = filepath.Dir(q) {
			if _, ex := s.kind[q]; !ex {
				s.kind[q] = 'd'
				s.touch(q)
			}
		}
		return true
	case "create":
		p, ok := s.resolve(arg(1))
		if !ok || !s.parentIsDir(p) || s.kind[p] == 'd' || strings.HasSuffix(arg(1), "/") || strings.HasSuffix(arg(1), "/.") {
			return false
		}
		if _, ex := s.kind[p]; !ex {
			s.touch(p)
		}
		s.kind[p] = 'f'
		s.handles = append(s.handles, &wfHandle{path: p, readable: true, writable: true})
		return true
	case "openfile":
		p, ok := s.resolve(arg(1))
		flag := atoi(t[2])
		acc := flag & 3
		if !ok || acc == 3 || flag&^(3|oCREATE|oEXCL|oTRUNC) != 0 {
			return false
		}
		if flag&oEXCL != 0 && flag&oCREATE == 0 {
			return false
		}
		if flag&oTRUNC != 0 && acc == 0 {
			return false
		}
		k, ex := s.kind[p]
		if !s.ancestorsOK(p) {
			return false
		}
		if (acc != 0 || flag&oCREATE != 0) && ex && k == 'd' && flag&oEXCL == 0 {
			return false
		}
		if (acc != 0 || flag&oCREATE != 0) && (strings.HasSuffix(arg(1), "/") || strings.HasSuffix(arg(1), "/.")) {
			return false
		}
		if !ex && flag&oCREATE != 0 && !s.parentIsDir(p) {
			return false
		}
		switch {
		case ex && flag&oEXCL != 0:
		case !ex && flag&oCREATE == 0:
		default:
			if !ex {
				s.kind[p] = 'f'
				s.touch(p)
			}
			s.handles = append(s.handles, &wfHandle{path: p, dir: s.kind[p] == 'd', readable: acc == 0 || acc == oRDWR, writable: acc != 0})
		}
		return true
	case "open":
		p, ok := s.resolve(arg(1))
		if !ok || !s.ancestorsOK(p) {
			return false
		}
		if _, ex := s.kind[p]; ex {
			s.handles = append(s.handles, &wfHandle{path: p, dir: s.kind[p] == 'd', readable: true})
		}
		return true
	case "remove":
		p, ok := s.resolve(arg(1))
		if !ok || p == "/" || !s.ancestorsOK(p) || (s.kind[p] == 'd' && s.hasChildren(p)) {
			return false
		}
		if _, ex := s.kind[p]; ex {
			delete(s.kind, p)
			s.touch(p)
			s.unlink(p)
		}
		return true
	case "removeall":
		p, ok := s.resolve(arg(1))
		if !ok || p == "/" || !s.ancestorsOK(p) {
			return false
		}
		for q := range s.kind {
			if q == p || strings.HasPrefix(q, p+"/") {
				delete(s.kind, q)
				s.dirty[filepath.Dir(q)]++
			}
		}
		s.unlink(p)
		return true
	case "rename":
		a, ok1 := s.resolve(arg(1))
		b, ok2 := s.resolve(arg(2))
		if !ok1 || !ok2 || a == "/" || b == "/" {
			return false
		}
		ka, exa := s.kind[a]
		kb, exb := s.kind[b]
		if !s.ancestorsOK(a) || !s.ancestorsOK(b) || !s.parentIsDir(b) || strings.HasPrefix(b, a+"/") || strings.HasPrefix(a, b+"/") {
			return false
		}
		if exb && a != b && !(exa && ka == 'f' && kb == 'f') {
			return false
		}
		if a == b && exa && ka == 'd' {
			return false // Go's os.Rename refuses an existing directory as target, even the same one
		}
		if ka == 'f' && (strings.HasSuffix(arg(2), "/") || strings.HasSuffix(arg(1), "/")) {
			return false
		}
		if exa && a != b {
			if exb {
				s.unlink(b)
			}
			for _, h := range s.handles {
				if h.path == a || strings.HasPrefix(h.path, a+"/") {
					h.path = b + strings.TrimPrefix(h.path, a)
					if h.dir {
						// Go's os.File.Readdir lstats entries under the name the directory was opened
						// with; after a rename that says nothing about the OS tree any more
						h.gone = true
					}
				}
			}
			movedFlags := map[string]bool{}
			for q := range s.chmoded {
				if q == b || strings.HasPrefix(q, b+"/") {
					delete(s.chmoded, q)
				}
			}
			for q := range s.chmoded {
				if q == a || strings.HasPrefix(q, a+"/") {
					movedFlags[b+strings.TrimPrefix(q, a)] = true
					delete(s.chmoded, q)
				}
			}
			for q := range movedFlags {
				s.chmoded[q] = true
			}
			moved := map[string]byte{}
			for q, kq := range s.kind {
				if q == a || strings.HasPrefix(q, a+"/") {
					moved[b+strings.TrimPrefix(q, a)] = kq
					delete(s.kind, q)
					s.dirty[filepath.Dir(q)]++
				}
			}
			for q, kq := range moved {
				s.kind[q] = kq
				s.dirty[filepath.Dir(q)]++
			}
		}
		return true
	case "stat", "chtimes":
		p, ok := s.resolve(arg(1))
		return ok && s.ancestorsOK(p)
	case "chmod":
		p, ok := s.resolve(arg(1))
		if !ok || !s.ancestorsOK(p) {
			return false
		}
		if _, ex := s.kind[p]; ex {
			s.chmoded[p] = true
		}
		return true
	case "statperm": // permission bits are compared only where they were set explicitly
		p, ok := s.resolve(arg(1))
		return ok && s.chmoded[p]
	}
	if strings.HasPrefix(t[0], "h.") {
		hi := atoi(t[1])
		if hi >= len(s.handles) {
			return false
		}
		h := s.handles[hi]
		switch t[0] {
		case "h.readdir", "h.readdirnames":
			if !h.dir || h.closed || h.gone || s.kind[h.path] != 'd' {
				return false
			}
			// a directory is not mutated between two pages of one listing handle
			if h.pages > 0 && h.seenAt != s.dirty[h.path] {
				return false
			}
			if h.pages == 0 {
				h.seenAt = s.dirty[h.path]
			}
			h.pages++
			return true
		case "h.stat":
			return !h.closed
		case "h.name", "h.sync":
			return false
		case "h.close":
			if h.closed {
				return false
			}
			h.closed = true
			return true
		case "h.seek":
			return !h.dir && atoi(t[3]) <= 2
		case "h.read", "h.readat":
			// zero-length reads are left to C02: the OS answers them without looking at the position
			return !h.dir && atoi(t[2]) > 0 && (h.closed || h.readable) && (t[0] == "h.read" || atoi64(t[3]) >= 0)
		case "h.readfrom":
			// io.Copy into the handle; an empty copy makes no call at all, so it is left out
			return !h.dir && t[2] != "-"
		case "h.write", "h.writestring", "h.writeat", "h.trunc":
			if t[0] == "h.writeat" && atoi64(t[3]) < 0 || t[0] == "h.trunc" && atoi64(t[2]) < 0 {
				return false
			}
			if t[0] != "h.trunc" && t[2] == "-" && h.closed {
				return false // an empty write on a closed descriptor is not even attempted by the OS
			}
			if !h.dir && !h.closed && !h.writable {
				// a handle opened without write access: the call must be refused by both sides and change
				// nothing (an empty write is answered by the OS without a look at the access mode)
				return t[0] == "h.trunc" || t[2] != "-"
			}
			return !h.dir && (h.closed || h.writable)
		}
	}
	return false
}

func c01WF(c corr.Case) bool {
	s := newWF()
	for _, l := range c.Lines {
		if !s.apply(strings.Fields(l)) {
			return false
		}
	}
	return true
}

// "ab" shares a string prefix with "a": a subtree operation on /a must leave /ab alone
// ("..x": an ordinary name that merely begins with two dots)
var c01Segs = []string{"a", "b", "c", "ab", "..x"}

func randPath(r *corr.Rand, maxDepth int) string {
	d := 1 + r.Intn(maxDepth)
	p := ""
	for i := 0; i < d; i++ {
		p += "/" + corr.Pick(r, c01Segs)
	}
	return p
}

// a spelling of the cleaned path p: redundant separators, '.', and 'x/..' detours
func spell(r *corr.Rand, s *wf, p string) string {
	if r.Chance(60) {
		return p
	}
	segs := strings.Split(strings.TrimPrefix(p, "/"), "/")
	var out []string
	for i, sg := range segs {
		if r.Chance(20) {
			out = append(out, ".")
		}
		if r.Chance(15) {
			out = append(out, "")
		}
		if r.Chance(15) {
			prefix := "/" + strings.Join(segs[:i], "/")
			for _, c := range c01Segs {
				if s.kind[filepath.Join(prefix, c)] == 'd' {
					out = append(out, c, "..")
					break
				}
			}
		}
		out = append(out, sg)
	}
	res := "/" + strings.Join(out, "/")
	if r.Chance(15) {
		res += "/"
	} else if r.Chance(12) {
		res += "/." // a final "." element
	}
	if r.Chance(10) {
		res = "/" + res
	}
	return res
}

func genC01(r *corr.Rand, steps int) corr.Case {
	s := newWF()
	lines := []string{"case mem"}
	hx := corr.HexS
	try := func(l string) bool {
		if s.apply(strings.Fields(l)) {
			lines = append(lines, l)
			return true
		}
		return false
	}
	pickP := func() string {
		var ps []string
		for p := range s.kind {
			if p != "/" {
				ps = append(ps, p)
			}
		}
		if len(ps) == 0 || r.Chance(15) {
			return randPath(r, 3)
		}
		sort.Strings(ps)
		return corr.Pick(r, ps)
	}
	for i := 0; i < steps; i++ {
		switch k := r.Intn(100); {
		case k < 10:
			try(fmt.Sprintf("mkdir %s %d", hx(spell(r, s, randPath(r, 3))), 0o700|r.Intn(0o100)))
		case k < 16:
			try(fmt.Sprintf("mkdirall %s %d", hx(spell(r, s, randPath(r, 3))), 0o755))
		case k < 26:
			if try("create "+hx(spell(r, s, randPath(r, 3)))) && r.Chance(70) {
				try(fmt.Sprintf("h.write %d %s", len(s.handles)-1, corr.Hex(payload(r, 1+r.Intn(6)))))
			}
		case k < 38:
			p := randPath(r, 3)
			if r.Chance(50) {
				p = pickP()
			}
			flag := r.Intn(3)
			if r.Chance(45) {
				flag |= oCREATE
				if r.Chance(40) {
					flag |= oEXCL
				}
			}
			if flag&3 != 0 && r.Chance(30) {
				flag |= oTRUNC
			}
			try(fmt.Sprintf("openfile %s %d %d", hx(spell(r, s, p)), flag, 0o644))
		case k < 44:
			try("open " + hx(spell(r, s, pickP())))
		case k < 50:
			try("remove " + hx(spell(r, s, pickP())))
		case k < 55:
			try("removeall " + hx(spell(r, s, pickP())))
		case k < 68:
			a := pickP()
			b := randPath(r, 3)
			if r.Chance(8) {
				b = a
			}
			try("rename " + hx(spell(r, s, a)) + " " + hx(spell(r, s, b)))
		case k < 74:
			if p := pickP(); s.chmoded[p] && r.Chance(60) {
				try("statperm " + hx(p))
			} else {
				try("stat " + hx(spell(r, s, p)))
			}
		case k < 78:
			p := pickP()
			if try(fmt.Sprintf("chmod %s %d", hx(spell(r, s, p)), 0o700|r.Intn(0o100))) {
				if _, ex := s.kind[p]; ex {
					try("statperm " + hx(p))
				}
			}
		case k < 80:
			try(fmt.Sprintf("chtimes %s %d", hx(spell(r, s, pickP())), r.Intn(1000)))
		case k < 97:
			if len(s.handles) == 0 {
				continue
			}
			hi := r.Intn(len(s.handles))
			if s.handles[hi].dir {
				n := corr.Pick(r, []int{-1, 0, 1, 2, 3, 10})
				try(fmt.Sprintf("%s %d %d", corr.Pick(r, []string{"h.readdir", "h.readdirnames"}), hi, n))
				continue
			}
			switch q := r.Intn(100); {
			case q < 25:
				try(fmt.Sprintf("%s %d %s", corr.Pick(r, []string{"h.write", "h.write", "h.writestring", "h.readfrom"}), hi, corr.Hex(payload(r, r.Intn(6)))))
			case q < 40:
				try(fmt.Sprintf("h.writeat %d %s %d", hi, corr.Hex(payload(r, r.Intn(6))), r.Intn(12)))
			case q < 58:
				try(fmt.Sprintf("h.read %d %d", hi, r.Intn(8)))
			case q < 70:
				try(fmt.Sprintf("h.readat %d %d %d", hi, 1+r.Intn(7), r.Intn(12)))
			case q < 82:
				try(fmt.Sprintf("h.seek %d %d %d", hi, r.Intn(10), r.Intn(3)))
			case q < 90:
				try(fmt.Sprintf("h.trunc %d %d", hi, r.Intn(10)))
			case q < 95:
				try(fmt.Sprintf("h.stat %d", hi))
			default:
				try(fmt.Sprintf("h.close %d", hi))
			}
		default:
			try("snapshot")
		}
	}
	lines = append(lines, "snapshot")
	return corr.Case{Lines: lines}
}

func c01Random(r *corr.Rand, tier string) []corr.Case {
	n := 1500
	if tier == "thorough" {
		n = 60000
	}
	cases := make([]corr.Case, 0, n)
	for i := 0; i < n; i++ {
		rr := r.Fork()
		cases = append(cases, genC01(rr, 8+rr.Intn(40)))
	}
	return cases
}

func c01NonTrivial(c corr.Case, impl []string) bool {
	moved, listed := false, false
	for i, l := range c.Lines {
		t := strings.Fields(l)
		if (t[0] == "rename" || t[0] == "removeall") && impl[i] == "ok" {
			moved = true
		}
		if moved && (t[0] == "h.readdir" || t[0] == "h.readdirnames" || t[0] == "snapshot") {
			listed = true
		}
	}
	return moved && listed
}

func c01Classify(c corr.Case, impl []string, hist map[string]int) {
	for i, l := range c.Lines {
		t := strings.Fields(l)
		hist["op:"+t[0]]++
		if i < len(impl) {
			if strings.HasPrefix(impl[i], "err:") {
				hist[impl[i]]++
			} else if k := strings.Index(impl[i], " err:"); k >= 0 && !strings.HasSuffix(impl[i], "err:-") {
				hist["err:"+impl[i][k+5:]]++
			}
		}
		if t[0] == "openfile" {
			hist[fmt.Sprintf("flag:%#x", atoi(t[2]))]++
		}
		if len(t) > 1 && !strings.HasPrefix(t[0], "h.") && t[0] != "case" {
			if p := string(corr.UnHex(t[1])); p != filepath.Clean(p) {
				hist["branch:unclean-spelling"]++
			}
		}
	}
}

func c01Corpus() []corr.Case {
	h := corr.HexS
	mk := func(l ...string) corr.Case { return corr.Case{Lines: append([]string{"case mem"}, l...)} }
	return []corr.Case{
		// S17: Chmod with an unnormalised spelling
		mk("mkdir "+h("/a")+" 493", "chmod "+h("/a/")+" 448", "statperm "+h("/a"), "chmod "+h("//a/.")+" 457", "statperm "+h("/a")),
		// the mode argument of an open that does not create the file is ignored; a rename carries the mode along
		mk("create "+h("/a"), "h.close 0", "chmod "+h("/a")+" 488", "openfile "+h("/a")+" 65 420", "h.write 1 58", "h.close 1", "statperm "+h("/a"),
			"openfile "+h("/a")+" 578 384", "h.close 2", "statperm "+h("/a"), "rename "+h("/a")+" "+h("/c"), "statperm "+h("/c"), "create "+h("/c"), "statperm "+h("/c")),
		// S18: Rename(x, x) of a missing name
		mk("rename "+h("/nope")+" "+h("/nope"), "snapshot"),
		// S19: Create over an existing file while an older handle is open
		mk("create "+h("/f"), "h.write 0 6f6c64", "create "+h("/f"), "h.write 0 58", "h.write 1 6e6577", "open "+h("/f"), "h.read 2 16", "snapshot"),
		// paging a listing
		mk("mkdir "+h("/d")+" 493", "create "+h("/d/a"), "create "+h("/d/b"), "create "+h("/d/c"), "open "+h("/d"), "h.readdirnames 3 2", "h.readdirnames 3 2", "h.readdirnames 3 2",
			"remove "+h("/d/a"), "remove "+h("/d/b"), "open "+h("/d"), "h.readdirnames 4 -1", "h.readdirnames 4 1"),
		// directory rename moves the whole subtree; handles survive
		mk("mkdirall "+h("/a/b/c")+" 493", "create "+h("/a/b/c/f"), "h.write 0 0102", "create "+h("/a/x"), "rename "+h("/a")+" "+h("/z"),
			"h.write 0 03", "stat "+h("/z/b/c/f"), "stat "+h("/a/b/c/f"), "open "+h("/z/b/c"), "h.readdirnames 2 -1", "snapshot"),
		// rename file over file, O_EXCL, O_TRUNC
		mk("create "+h("/p"), "h.write 0 6161", "create "+h("/q"), "h.write 1 6262", "rename "+h("/p")+" "+h("/q"), "openfile "+h("/q")+" 192 420",
			"openfile "+h("/q")+" 514 420", "h.write 2 63", "snapshot"),
		// a relative seek that fails leaves the handle where it was
		mk("create "+h("/f"), "h.write 0 30313233343536", "h.seek 0 3 0", "h.seek 0 -5 1", "h.seek 0 0 1", "h.read 0 3", "h.seek 0 -9 1", "h.write 0 58", "h.seek 0 0 0", "h.read 0 16", "snapshot"),
		// a handle that stays open across a rename of its file still is a handle on that file: length changes show on both sides
		mk("create "+h("/p"), "h.write 0 48656c6c6f", "rename "+h("/p")+" "+h("/r"), "h.write 0 20776f726c64", "stat "+h("/r"), "open "+h("/r"), "h.read 1 16",
			"openfile "+h("/r")+" 2 420", "h.trunc 2 2", "h.seek 0 0 0", "h.read 0 16", "stat "+h("/r"), "h.writeat 0 5a5a 6", "stat "+h("/r"), "h.seek 1 0 0", "h.read 1 16", "snapshot"),
		// a directory handle keeps its place in the listing when the directory (or an ancestor) is renamed between two pages
		mk("mkdirall "+h("/m/inbox")+" 493", "create "+h("/m/inbox/a"), "create "+h("/m/inbox/b"), "create "+h("/m/inbox/c"), "create "+h("/m/inbox/d"), "open "+h("/m/inbox"),
			"h.readdirnames 4 1", "rename "+h("/m/inbox")+" "+h("/m/outbox"), "h.readdirnames 4 1", "rename "+h("/m")+" "+h("/a"), "h.readdirnames 4 1", "rename "+h("/a/outbox")+" "+h("/a/b"), "h.readdirnames 4 -1", "snapshot"),
		// a subtree is delimited by path elements, not by a string prefix
		mk("mkdirall "+h("/d/log")+" 493", "mkdir "+h("/d/logs")+" 493", "create "+h("/d/log.old"), "create "+h("/d/log/x"), "create "+h("/d/logs/keep"),
			"removeall "+h("/d/log"), "stat "+h("/d/log.old"), "stat "+h("/d/logs/keep"), "snapshot", "rename "+h("/d/logs")+" "+h("/d/l"), "stat "+h("/d/log.old"), "snapshot"),
	}
}

func C01() *corr.Engine {
	return &corr.Engine{
		ID: "C01", DriverEngine: "memfs",
		Corpus: c01Corpus, Random: c01Random, Exhaustive: c01Exhaustive,
		RunImpl: c01RunImpl, Oracle: c01Oracle, NonTrivial: c01NonTrivial, Classify: c01Classify,
		Rule: "well-formed programs (preconditions re-validated by the wf state machine) over the name universe {a,b,c}^≤3 with redundant spellings, plus every well-formed program of ≤3/4 Fs-level ops over {/a,/a/b,/c}; non-trivial = at least one successful rename or recursive removal and at least one listing or tree snapshot afterwards; distinct by script hash",
		Signature: func(c corr.Case, impl []string, what string, line int) string {
			op := "?"
			if line >= 0 && line < len(c.Lines) {
				op = strings.Fields(c.Lines[line])[0]
			}
			return "C01:" + op + ":" + strings.SplitN(what, ":", 2)[0]
		},
	}
}

// every well-formed program of ≤ k Fs-level ops over {/a, /a/b, /c} followed by a snapshot
func c01Exhaustive(tier string) []corr.Case {
	h := corr.HexS
	names := []string{"/a", "/a/b", "/c"}
	var ops []string
	for _, n := range names {
		ops = append(ops, "mkdir "+h(n)+" 493", "create "+h(n), "remove "+h(n), "removeall "+h(n), "stat "+h(n),
			"openfile "+h(n)+" 66 420", "openfile "+h(n)+" 193 420", "openfile "+h(n)+" 513 420")
		for _, m := range names {
			if m != n {
				ops = append(ops, "rename "+h(n)+" "+h(m))
			}
		}
	}
	depth := 3
	if tier == "thorough" {
		depth = 4
	}
	var cases []corr.Case
	var rec func(prefix []string, s *wf)
	rec = func(prefix []string, s *wf) {
		if len(prefix) > 0 {
			l := append([]string{"case mem"}, prefix...)
			l = append(l, "snapshot")
			cases = append(cases, corr.Case{Lines: l})
		}
		if len(prefix) == depth {
			return
		}
		for _, op := range ops {
			s2 := s.clone()
			if !s2.apply(strings.Fields(op)) {
				continue
			}
			rec(append(append([]string{}, prefix...), op), s2)
		}
	}
	rec(nil, newWF())
	return cases
}
