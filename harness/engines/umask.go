package engines

import "syscall"

// the harness runs as root with umask 0 so that explicitly set permission bits survive
func syscallUmask() { syscall.Umask(0) }
