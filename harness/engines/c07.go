package engines

import (
	"fmt"
	"io"
	"os"
	"path/filepath"
	"sort"
	"strings"
	"time"

	"github.com/spf13/afero"

	"verifharness/corr"
)

// ---------------------------------------------------------------------------------------
// C07 — ReadOnlyFs never lets a mutation through and reads transparently.
// Script (engine `rofs`): case ro-mem | ro-os | ro-bp ; `src.<op>` lines act on the source,
// everything else goes through the wrapper.  Oracle: the source's full snapshot (paths,
// bytes, modes, mtimes) is identical before and after every wrapper line; mutators say
// `perm`; Stat/Open/listing equal the direct ones.
// ---------------------------------------------------------------------------------------

type c07Stack struct {
	wrapper, src afero.Fs
	root         string
	cleanup      func()
	cmp          afero.Fs // what the wrapper's reads are compared with (the wrapped filesystem); nil = src
}

func (st *c07Stack) direct() afero.Fs {
	if st.cmp != nil {
		return st.cmp
	}
	return st.src
}

// spyFs records the name arguments of the read calls it receives.
type spyFs struct {
	afero.Fs
	seen []string
}

func (s *spyFs) Stat(name string) (os.FileInfo, error) {
	s.seen = append(s.seen, name)
	return s.Fs.Stat(name)
}
func (s *spyFs) Open(name string) (afero.File, error) {
	s.seen = append(s.seen, name)
	return s.Fs.Open(name)
}
func (s *spyFs) OpenFile(name string, flag int, perm os.FileMode) (afero.File, error) {
	s.seen = append(s.seen, name)
	return s.Fs.OpenFile(name, flag, perm)
}
func (s *spyFs) LstatIfPossible(name string) (os.FileInfo, bool, error) {
	s.seen = append(s.seen, name)
	return s.Fs.(afero.Lstater).LstatIfPossible(name)
}

func c07New(name string) *c07Stack {
	switch name {
	case "ro-mem":
		m := afero.NewMemMapFs()
		return &c07Stack{afero.NewReadOnlyFs(m), m, "/", func() {}, nil}
	case "ro-os":
		dir, err := os.MkdirTemp("", "verif-c07-")
		if err != nil {
			panic(err)
		}
		syscallUmask()
		src := &rootedFs{afero.NewOsFs(), dir, false}
		return &c07Stack{afero.NewReadOnlyFs(src), src, "/", func() { os.RemoveAll(dir) }, nil}
	case "ro-bp":
		m := afero.NewMemMapFs()
		m.MkdirAll("/base", 0o755)
		src := afero.NewBasePathFs(m, "/base")
		return &c07Stack{afero.NewReadOnlyFs(src), src, "/", func() {}, nil}
	case "ro-ro":
		m := afero.NewMemMapFs()
		return &c07Stack{afero.NewReadOnlyFs(afero.NewReadOnlyFs(m)), m, "/", func() {}, nil}
	case "ro-mem-reopen": // the all-memory stack again, for lines the model does not have (File.Open on a closed handle)
		m := afero.NewMemMapFs()
		return &c07Stack{afero.NewReadOnlyFs(m), m, "/", func() {}, nil}
	case "ro-spy": // the wrapped filesystem records the names it is given: a read must hand the caller's name on as it is
		m := afero.NewMemMapFs()
		sp := &spyFs{Fs: m}
		return &c07Stack{afero.NewReadOnlyFs(sp), m, "/", func() {}, sp}
	case "ro-cache":
		// the wrapped filesystem is a CacheOnReadFs whose cache is empty: set-up lines write the base directly, so
		// nothing is cached when the wrapper is first used (its Open and OpenFile(O_RDONLY) take different routes)
		b, l := afero.NewMemMapFs(), afero.NewMemMapFs()
		c := afero.NewCacheOnReadFs(b, l, time.Hour)
		return &c07Stack{afero.NewReadOnlyFs(c), b, "/", func() {}, c}
	}
	panic("unknown stack " + name)
}

// result lines carry oracle annotations after " #": FROZEN-VIOLATED, NOT-TRANSPARENT
func c07RunImpl(c corr.Case) []string {
	var st *c07Stack
	var r *Runner
	defer func() {
		if st != nil {
			r.CloseAll()
			st.cleanup()
		}
	}()
	old := time.Unix(1_600_000_000, 123_456_789) // not a whole second: a rounded time stamp shows
	srcH := map[int]bool{}                       // handles opened directly on the source (set-up), not through the wrapper
	out := make([]string, 0, len(c.Lines))
	for _, line := range c.Lines {
		t := strings.Fields(line)
		out = append(out, guard(func() string {
			if t[0] == "case" {
				if st != nil {
					r.CloseAll()
					st.cleanup()
				}
				st = c07New(t[1])
				r = NewRunner(st.wrapper)
				r.Src = st.src
				srcH = map[int]bool{}
				return "case"
			}
			if t[0] == "snapshot" {
				if m, ok := st.src.(*afero.MemMapFs); ok {
					return SnapLine(SnapshotMem(m))
				}
				return "snap"
			}
			if t[0] == "src.age" { // give every source entry an old, fixed mtime so that any later stamp shows
				afero.Walk(st.src, st.root, func(p string, fi os.FileInfo, err error) error {
					if err == nil {
						st.src.Chtimes(p, old, old)
					}
					return nil
				})
				return "ok"
			}
			if strings.HasPrefix(t[0], "src.") {
				res := r.Exec(t)
				if strings.HasPrefix(res, "h=") {
					srcH[len(r.H)-1] = true
				}
				return res
			}
			if strings.HasPrefix(t[0], "h.") && srcH[atoi(t[1])] {
				return r.Exec(t) + " #SRC"
			}
			if t[0] == "h.reopen" { // File.Open() of the handle's own type, if it has one (mem.File does)
				if hi := atoi(t[1]); hi < len(r.H) {
					if ro, ok := r.H[hi].(interface{ Open() error }); ok {
						return fsErr(ro.Open())
					}
				}
				return "err:inval"
			}
			if t[0] == "links-os" {
				return c07LinksOS()
			}
			if t[0] == "chtimes-zero" { // Chtimes with the zero time.Time as modification time ("leave it alone" for os.Chtimes): still a mutating call
				before := FullSnapshot(st.src, st.root)
				err := st.wrapper.Chtimes(string(corr.UnHex(t[1])), time.Unix(7, 0), time.Time{})
				note := ""
				if FullSnapshot(st.src, st.root) != before {
					note += " #FROZEN-VIOLATED"
				}
				if ErrClass(err) != "perm" {
					note += " #NOT-REFUSED"
				}
				return "err:" + ErrClass(err) + note
			}
			if t[0] == "fsreaddir" { // the wrapper's own ReadDir method (ReadOnlyFs has one), against afero.ReadDir of the wrapped filesystem
				name := string(corr.UnHex(t[1]))
				rd, ok := st.wrapper.(interface {
					ReadDir(string) ([]os.FileInfo, error)
				})
				if !ok {
					return "err:inval"
				}
				list := func(fis []os.FileInfo, err error) string {
					if err != nil {
						return "err:" + ErrClass(err)
					}
					var ns []string
					for _, fi := range fis {
						ns = append(ns, fmt.Sprintf("%s/%v/%d", corr.HexS(fi.Name()), fi.IsDir(), fi.Size()))
					}
					return "list=" + strings.Join(ns, ",")
				}
				before := FullSnapshot(st.src, st.root)
				got := list(rd.ReadDir(name))
				want := list(afero.ReadDir(st.direct(), name))
				note := ""
				if got != want {
					note += " #NOT-TRANSPARENT(direct:" + want + ")"
				}
				if FullSnapshot(st.src, st.root) != before {
					note += " #FROZEN-VIOLATED"
				}
				return got + note
			}
			before := FullSnapshot(st.src, st.root)
			spy, _ := st.cmp.(*spyFs)
			if spy != nil {
				spy.seen = nil
			}
			res := r.Exec(t)
			note := ""
			if spy != nil && (t[0] == "stat" || t[0] == "lstat" || t[0] == "open" || t[0] == "openfile") {
				for _, n := range spy.seen {
					if n != string(corr.UnHex(t[1])) {
						note += fmt.Sprintf(" #NOT-TRANSPARENT(the wrapped filesystem was asked for %q)", n)
					}
				}
			}
			if after := FullSnapshot(st.src, st.root); after != before {
				note += " #FROZEN-VIOLATED"
			}
			// transparency of Fs-level reads
			switch t[0] {
			case "stat", "lstat":
				fi, err := st.direct().Stat(string(corr.UnHex(t[1])))
				want := "err:" + ErrClass(err)
				if err == nil {
					want = infoLine(fi)
				}
				if want != res {
					note += " #NOT-TRANSPARENT(direct:" + want + ")"
				}
			case "open":
				if strings.HasPrefix(res, "h=") {
					direct, err := st.direct().Open(string(corr.UnHex(t[1])))
					via, err2 := st.wrapper.Open(string(corr.UnHex(t[1]))) // a second handle: the script's own is left untouched
					if err != nil || err2 != nil {
						note += " #NOT-TRANSPARENT(direct open fails)"
					} else {
						a, b := drain(via), drain(direct)
						if a != b {
							note += " #NOT-TRANSPARENT(" + a + " vs direct " + b + ")"
						}
					}
					if direct != nil {
						direct.Close()
					}
					if via != nil {
						via.Close()
					}
				} else if _, err := st.direct().Stat(string(corr.UnHex(t[1]))); err == nil {
					note += " #NOT-TRANSPARENT(open fails, source has it)"
				}
			}
			return res + note
		}))
	}
	return out
}

// drain reads a file's bytes or a directory's sorted names
func drain(f afero.File) string {
	fi, err := f.Stat()
	if err != nil {
		return "stat-err"
	}
	if fi.IsDir() {
		names, _ := f.Readdirnames(-1)
		sort.Strings(names)
		return "dir:" + strings.Join(names, ",")
	}
	b, _ := io.ReadAll(f)
	return fmt.Sprintf("file:%x", b)
}

var c07Mutators = map[string]bool{"create": true, "mkdir": true, "mkdirall": true, "remove": true, "removeall": true,
	"rename": true, "chmod": true, "chown": true, "chtimes": true}

// c07LinksOS: reads through the wrapper on a tree with symbolic links (operating system's file system): Stat follows
// a link exactly as the source's Stat does, LstatIfPossible describes the link itself exactly as the source's does,
// Open and ReadFile reach the target — for a link to a file, to a directory, to nothing, directly over OsFs and over
// a BasePathFs on it.
func c07LinksOS() string {
	dir, err := os.MkdirTemp("", "verif-c07l-")
	if err != nil {
		return "fail: " + err.Error()
	}
	defer os.RemoveAll(dir)
	os.MkdirAll(filepath.Join(dir, "real"), 0o755)
	os.WriteFile(filepath.Join(dir, "real", "f.txt"), []byte("target bytes"), 0o644)
	os.Symlink(filepath.Join(dir, "real", "f.txt"), filepath.Join(dir, "link.txt"))
	os.Symlink("real", filepath.Join(dir, "linkdir"))
	os.Symlink("nowhere", filepath.Join(dir, "dangling"))
	describe := func(fi os.FileInfo, err error) string {
		if err != nil {
			return "err:" + ErrClass(err)
		}
		return fmt.Sprintf("%s type=%v size=%d", fi.Name(), fi.Mode().Type(), fi.Size())
	}
	sources := map[string]afero.Fs{"os": afero.NewOsFs(), "bp": afero.NewBasePathFs(afero.NewOsFs(), dir)}
	for _, sn := range []string{"os", "bp"} {
		src := sources[sn]
		ro := afero.NewReadOnlyFs(src)
		for _, n := range []string{"link.txt", "linkdir", "dangling", "real/f.txt", "linkdir/f.txt", "real"} {
			p := "/" + n
			if sn == "os" {
				p = filepath.Join(dir, n)
			}
			if got, want := describe(ro.Stat(p)), describe(src.Stat(p)); got != want {
				return fmt.Sprintf("fail: Stat(%s) through the wrapper over %s answers [%s], the source answers [%s]", n, sn, got, want)
			}
			lg, _, e1 := ro.(afero.Lstater).LstatIfPossible(p)
			lw, _, e2 := src.(afero.Lstater).LstatIfPossible(p)
			if got, want := describe(lg, e1), describe(lw, e2); got != want {
				return fmt.Sprintf("fail: LstatIfPossible(%s) through the wrapper over %s answers [%s], the source answers [%s]", n, sn, got, want)
			}
			bg, e3 := afero.ReadFile(ro, p)
			bw, e4 := afero.ReadFile(src, p)
			if string(bg) != string(bw) || ErrClass(e3) != ErrClass(e4) {
				return fmt.Sprintf("fail: ReadFile(%s) through the wrapper over %s gives %q, %v; the source gives %q, %v", n, sn, bg, e3, bw, e4)
			}
		}
	}
	return "ok"
}

func c07Oracle(c corr.Case, impl []string) (string, int) {
	for i, line := range c.Lines {
		t := strings.Fields(line)
		if impl[i] == "panic" {
			return "call panics: " + t[0], i
		}
		if strings.Contains(impl[i], "#FROZEN-VIOLATED") {
			return t[0] + " through the read-only wrapper changed the wrapped filesystem", i
		}
		if strings.Contains(impl[i], "#NOT-REFUSED") {
			return t[0] + " did not fail with a permission error: " + impl[i], i
		}
		if t[0] == "links-os" && strings.HasPrefix(impl[i], "fail") {
			return impl[i], i
		}
		if strings.Contains(impl[i], "#NOT-TRANSPARENT") {
			return t[0] + " through the wrapper differs from the direct call: " + impl[i], i
		}
		if c07Mutators[t[0]] && impl[i] != "err:perm" {
			return t[0] + " did not fail with a permission error: " + impl[i], i
		}
		if t[0] == "openfile" {
			flag := atoi(t[2])
			if flag&(os.O_WRONLY|os.O_RDWR|os.O_APPEND|os.O_CREATE|os.O_TRUNC) != 0 && impl[i] != "err:perm" {
				return "openfile requesting write access did not fail with a permission error: " + impl[i], i
			}
		}
		if (t[0] == "h.write" || t[0] == "h.writestring" || t[0] == "h.readfrom" || t[0] == "h.writeat") && !strings.Contains(impl[i], "#SRC") && strings.HasPrefix(impl[i], "n=") && !strings.HasPrefix(impl[i], "n=0 ") {
			return "a write through a handle returned by the wrapper reported bytes written: " + impl[i], i
		}
	}
	return "", -1
}

func c07Strip(s string) string {
	if k := strings.Index(s, " #"); k >= 0 {
		return s[:k]
	}
	return s
}

var c07Flags = func() []int {
	bits := []int{os.O_WRONLY, os.O_RDWR, os.O_APPEND, os.O_CREATE, os.O_EXCL, os.O_TRUNC, os.O_SYNC}
	var fl []int
	for m := 0; m < 1<<len(bits); m++ {
		f := 0
		for i, b := range bits {
			if m&(1<<i) != 0 {
				f |= b
			}
		}
		fl = append(fl, f)
	}
	return append(fl, -1, 1<<20, 0x20000, 0x10000, 0x80000, 0x1000, 0x101000|0x80000, 4, 8, 16, 32)
}()

func c07Setup() []string {
	h := corr.HexS
	return []string{
		"src.mkdirall " + h("/d/sub") + " 493", "src.create " + h("/d/file"), "h.write 0 68656c6c6f", "h.close 0",
		"src.create " + h("/d/sub/x"), "h.write 1 78", "h.close 1", "src.create " + h("/top"), "h.write 2 746f70", "h.close 2", "src.age",
	}
}

// c07SetupOpen: the same tree, but the source-side writable handles that wrote the files are still
// open (state shared between the handles of one file must not let a read-only handle act for them)
func c07SetupOpen() []string {
	var l []string
	for _, x := range c07Setup() {
		if !strings.HasPrefix(x, "h.close") {
			l = append(l, x)
		}
	}
	return l
}

func c07HandleOps(hi int) []string {
	return []string{
		fmt.Sprintf("h.read %d 3", hi), fmt.Sprintf("h.write %d 5858", hi), fmt.Sprintf("h.writeat %d 5959 1", hi), fmt.Sprintf("h.readfrom %d 4652", hi),
		fmt.Sprintf("h.trunc %d 0", hi), fmt.Sprintf("h.trunc %d 9", hi), fmt.Sprintf("h.seek %d 1 0", hi), fmt.Sprintf("h.readat %d 4 0", hi),
		fmt.Sprintf("h.stat %d", hi), fmt.Sprintf("h.readdirnames %d -1", hi), fmt.Sprintf("h.sync %d", hi),
		// rewind (also a directory handle), then try to write once more
		fmt.Sprintf("h.seek %d 0 0", hi), fmt.Sprintf("h.writeat %d 5a 0", hi), fmt.Sprintf("h.close %d", hi),
		fmt.Sprintf("h.write %d 5a", hi), fmt.Sprintf("h.writestring %d 5753", hi), fmt.Sprintf("h.readfrom %d 5246", hi),
		// an explicit Close followed by a deferred one: the second Close of a handle is as harmless as the first
		fmt.Sprintf("h.close %d", hi), fmt.Sprintf("h.write %d 5b", hi),
	}
}

func c07Exhaustive(tier string) []corr.Case {
	h := corr.HexS
	var cases []corr.Case
	stacks := []string{"ro-mem", "ro-os", "ro-bp", "ro-ro"}
	targets := []string{"/absent", "/d/file", "/d", "/d/absent/deeper"}
	for _, st := range stacks {
		for _, tg := range targets {
			for _, fl := range c07Flags {
				l := append([]string{"case " + st}, c07Setup()...)
				l = append(l, fmt.Sprintf("openfile %s %d 420", h(tg), fl))
				l = append(l, c07HandleOps(3)...)
				l = append(l, "stat "+h(tg), "snapshot")
				cases = append(cases, corr.Case{Lines: l})
			}
			// plain Open + every handle method, and every mutator on every target
			l := append([]string{"case " + st}, c07Setup()...)
			l = append(l, "open "+h(tg))
			l = append(l, c07HandleOps(3)...)
			for _, m := range []string{"create %s", "mkdir %s 493", "mkdirall %s 493", "remove %s", "removeall %s", "chmod %s 384", "chown %s 1 1", "chtimes %s 5"} {
				l = append(l, fmt.Sprintf(m, h(tg)))
			}
			l = append(l, "rename "+h(tg)+" "+h("/moved"), "rename "+h("/top")+" "+h(tg), "stat "+h(tg), "snapshot")
			cases = append(cases, corr.Case{Lines: l})
			// the same reads while the source's own writable handles on the files are still open
			for _, fl := range []int{-1, 0, 0x101000, 0x80, 0x1000} {
				l := append([]string{"case " + st}, c07SetupOpen()...)
				if fl < 0 {
					l = append(l, "open "+h(tg))
				} else {
					l = append(l, fmt.Sprintf("openfile %s %d 420", h(tg), fl))
				}
				l = append(l, "h.read 3 3", "h.stat 3", "h.close 3", "stat "+h(tg), "open "+h(tg), "h.readdirnames 4 -1", "h.close 4", "snapshot")
				cases = append(cases, corr.Case{Lines: l})
			}
		}
	}
	// the wrapper's own ReadDir method, before and after the source changed underneath it
	for _, st := range []string{"ro-mem", "ro-os", "ro-bp", "ro-ro"} {
		l := append([]string{"case " + st}, c07Setup()...)
		l = append(l, "fsreaddir "+h("/d"), "fsreaddir "+h("/"), "fsreaddir "+h("/d/"), "src.create "+h("/d/added"), "src.remove "+h("/d/file"), "fsreaddir "+h("/d"),
			"fsreaddir "+h("/d/."), "src.mkdir "+h("/d/newdir")+" 493", "fsreaddir "+h("/d"), "fsreaddir "+h("/absent"), "fsreaddir "+h("/top"), "snapshot",
			"chtimes-zero "+h("/d/file"), "chtimes-zero "+h("/d"), "chtimes-zero "+h("/absent"), "links-os", "snapshot")
		cases = append(cases, corr.Case{Lines: l})
	}
	// reads with names that are not clean: the wrapper hands them on as they are (below a BasePathFs a name that
	// climbs out of the root does not exist, whatever it cleans to)
	for _, st := range []string{"ro-bp", "ro-spy", "ro-mem", "ro-os"} {
		l := append([]string{"case " + st}, c07Setup()...)
		for _, n := range []string{"/../d/file", "/d/../../d/file", "/d/file/", "/d/file/.", "", ".", "/d/./file", "//d//file", "/d/sub/..", "/../d", "d/file", "../d/file"} {
			l = append(l, "stat "+h(n), "lstat "+h(n), "open "+h(n), fmt.Sprintf("openfile %s 0 420", h(n)))
		}
		l = append(l, "snapshot")
		cases = append(cases, corr.Case{Lines: l})
	}
	// a CacheOnReadFs as the wrapped filesystem, nothing cached yet: Open and read-only OpenFile of files and directories
	for _, tg := range []string{"/d", "/d/file", "/d/sub", "/top", "/absent"} {
		for _, fl := range []int{-1, 0, 0x101000} {
			l := append([]string{"case ro-cache"}, c07Setup()...)
			if fl < 0 {
				l = append(l, "open "+h(tg))
			} else {
				l = append(l, fmt.Sprintf("openfile %s %d 420", h(tg), fl))
			}
			l = append(l, "h.read 3 3", "h.readdirnames 3 -1", "h.write 3 58", "h.close 3", "stat "+h(tg), "open "+h(tg), "create "+h(tg), "remove "+h(tg), "snapshot")
			cases = append(cases, corr.Case{Lines: l})
		}
	}
	// a handle closed and opened again through its own Open method keeps what it was opened for
	for _, fl := range []int{-1, 0, 0x101000} {
		l := append([]string{"case ro-mem-reopen"}, c07Setup()...)
		if fl < 0 {
			l = append(l, "open "+h("/d/file"))
		} else {
			l = append(l, fmt.Sprintf("openfile %s %d 420", h("/d/file"), fl))
		}
		l = append(l, "h.close 3", "h.reopen 3", "h.write 3 58", "h.writeat 3 59 1", "h.trunc 3 0", "h.writestring 3 5a", "h.close 3", "h.reopen 3", "h.trunc 3 1", "h.close 3", "snapshot")
		cases = append(cases, corr.Case{Lines: l})
	}
	return cases
}

func c07Random(r *corr.Rand, tier string) []corr.Case {
	n := 400
	if tier == "thorough" {
		n = 20000
	}
	h := corr.HexS
	names := []string{"/d", "/d/file", "/d/sub", "/d/sub/x", "/top", "/absent", "/d/new", "//d/./file", "/d/sub/../file", "/../d/file", "/d/file/"}
	var cases []corr.Case
	for i := 0; i < n; i++ {
		rr := r.Fork()
		st := corr.Pick(rr, []string{"ro-mem", "ro-mem", "ro-os", "ro-bp", "ro-ro", "ro-spy"})
		l := append([]string{"case " + st}, c07Setup()...)
		if rr.Chance(30) {
			l = append([]string{"case " + st}, c07SetupOpen()...)
		}
		nh := 3
		for k := 0; k < 10+rr.Intn(25); k++ {
			p := corr.Pick(rr, names)
			switch q := rr.Intn(100); {
			case q < 20:
				l = append(l, fmt.Sprintf("openfile %s %d 420", h(p), corr.Pick(rr, c07Flags)))
				nh++ // optimistic: handle numbering is resolved by both sides identically; failed opens do not allocate
			case q < 30:
				l = append(l, "open "+h(p))
			case q < 38:
				l = append(l, corr.Pick(rr, []string{"stat ", "lstat ", "fsreaddir "})+h(p))
				if rr.Chance(30) {
					l = append(l, corr.Pick(rr, []string{"src.create ", "src.remove "})+h(corr.Pick(rr, []string{"/d/extra", "/d/sub/x", "/d/new"})))
				}
			case q < 60:
				m := corr.Pick(rr, []string{"create %s", "mkdir %s 493", "mkdirall %s 493", "remove %s", "removeall %s", "chmod %s 384", "chown %s 1 1", "chtimes %s 5"})
				l = append(l, fmt.Sprintf(m, h(p)))
			case q < 65:
				l = append(l, "rename "+h(p)+" "+h(corr.Pick(rr, names)))
			default:
				hi := 3 + rr.Intn(6)
				l = append(l, corr.Pick(rr, c07HandleOps(hi)))
			}
		}
		l = append(l, "snapshot")
		cases = append(cases, corr.Case{Lines: l})
	}
	return cases
}

func C07() *corr.Engine {
	return &corr.Engine{
		ID: "C07", DriverEngine: "rofs",
		Exhaustive: c07Exhaustive, Random: c07Random,
		Corpus: func() []corr.Case {
			h := corr.HexS
			l := append([]string{"case ro-mem"}, c07Setup()...)
			// S4: O_SYNC requests no write access, the handle must still be read-only
			l = append(l, fmt.Sprintf("openfile %s %d 420", h("/d/file"), 0x101000), "h.write 3 5858", "h.trunc 3 0", "h.close 3", "snapshot")
			return []corr.Case{{Lines: l}}
		},
		RunImpl: c07RunImpl, Oracle: c07Oracle,
		NonTrivial: func(c corr.Case, impl []string) bool {
			opened := false
			for i, l := range c.Lines {
				t := strings.Fields(l)
				if (t[0] == "openfile" || t[0] == "open") && strings.HasPrefix(impl[i], "h=") {
					opened = true
				}
				if opened && (t[0] == "h.write" || t[0] == "h.writestring" || t[0] == "h.readfrom" || t[0] == "h.writeat" || t[0] == "h.trunc") {
					return true
				}
			}
			return false
		},
		Classify: func(c corr.Case, impl []string, hist map[string]int) {
			for i, l := range c.Lines {
				t := strings.Fields(l)
				hist["op:"+t[0]]++
				if t[0] == "case" {
					hist["stack:"+t[1]]++
				}
				if t[0] == "openfile" {
					hist["openfile:"+strings.Fields(c07Strip(impl[i]))[0][:2]]++
				}
			}
		},
		Rule: "every flag of the 2^7 table {WRONLY,RDWR,APPEND,CREATE,EXCL,TRUNC,SYNC} plus 11 other integers × 4 targets × 4 stacks, each followed by every handle method; every mutator on every target; random sequences; non-trivial = an open succeeded and a write-type call was then made on a handle; distinct by script hash",
		Signature: func(c corr.Case, impl []string, what string, line int) string {
			return "C07:" + strings.Fields(c.Lines[line])[0] + ":" + strings.Fields(c.Lines[0])[1]
		},
		CompareLine: func(impl, model string) bool { return model == "unmodelled" || c07Strip(impl) == model },
	}
}
