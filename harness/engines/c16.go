package engines

import (
	"errors"
	"fmt"
	"os"
	"path/filepath"
	"sort"
	"strings"
	"time"

	"github.com/spf13/afero"

	"verifharness/corr"
)

// ---------------------------------------------------------------------------------------
// C16 — Walk and Glob agree with path/filepath on the same tree.
// Script (engine `walk`): case <stack> ; tree <d|f>:<path>… ; walk <root> <k>:<s|eN>… ; glob <pattern>
// RunImpl = afero.Walk / afero.Glob on the stack; Oracle = filepath.Walk / filepath.Glob on an
// identical tree in a temp dir (paths compared relative to the temp dir).
// ---------------------------------------------------------------------------------------

// walkErr: an error of the callback's own; it may wrap SkipDir or SkipAll (`%w`), which makes it neither of them:
// filepath.Walk compares with ==
type walkErr struct {
	n    int
	wrap error
}

func (e walkErr) Error() string { return fmt.Sprintf("callback error %d", e.n) }
func (e walkErr) Unwrap() error { return e.wrap }

func c16Stack(name string) (fs afero.Fs, under afero.Fs) {
	m := afero.NewMemMapFs()
	switch name {
	case "mem":
		return m, m
	case "ro":
		return afero.NewReadOnlyFs(m), m
	case "bp":
		mm := afero.NewMemMapFs()
		mm.MkdirAll("/base", 0o755)
		b := afero.NewBasePathFs(mm, "/base")
		return b, b
	case "cow":
		l := afero.NewMemMapFs()
		return afero.NewCopyOnWriteFs(m, l), m // the tree lives in the base; the overlay is empty
	}
	panic("unknown stack " + name)
}

func c16Plan(toks []string) map[int]error {
	plan := map[int]error{}
	for _, t := range toks {
		p := strings.SplitN(t, ":", 2)
		if p[1] == "s" {
			plan[atoi(p[0])] = filepath.SkipDir
		} else if p[1] == "a" {
			plan[atoi(p[0])] = filepath.SkipAll
		} else if p[1][0] == 'w' { // an error that wraps SkipDir
			plan[atoi(p[0])] = walkErr{atoi(p[1][1:]), filepath.SkipDir}
		} else if p[1][0] == 'v' { // an error that wraps SkipAll
			plan[atoi(p[0])] = walkErr{atoi(p[1][1:]), filepath.SkipAll}
		} else {
			plan[atoi(p[0])] = walkErr{atoi(p[1][1:]), nil}
		}
	}
	return plan
}

func c16Result(visits []string, err error) string {
	res := "ok"
	var we walkErr
	switch {
	case err == nil:
	case err == filepath.SkipDir:
		res = "skipdir"
	case errors.As(err, &we):
		res = fmt.Sprintf("err%d", we.n)
	default:
		res = "other(" + err.Error() + ")"
	}
	return "visits=" + strings.Join(visits, ",") + " result=" + res
}

func c16Build(fs afero.Fs, items []string) {
	for _, it := range items {
		p := strings.SplitN(it, ":", 2)
		path := string(corr.UnHex(p[1]))
		if p[0] == "d" {
			fs.MkdirAll(path, 0o755)
		} else {
			fs.MkdirAll(filepath.Dir(path), 0o755)
			afero.WriteFile(fs, path, []byte("x"), 0o644)
		}
	}
}

func c16RunImpl(c corr.Case) []string {
	var fs afero.Fs
	out := make([]string, 0, len(c.Lines))
	for _, line := range c.Lines {
		t := strings.Fields(line)
		out = append(out, guard(func() string {
			switch t[0] {
			case "case":
				fs, _ = c16Stack(t[1])
				return "case"
			case "tree":
				_, under := c16Stack("mem")
				_ = under
				// build through the bottom layer of the current stack
				switch b := fs.(type) {
				case *afero.MemMapFs:
					c16Build(b, t[1:])
				default:
					// ro/cow: rebuild the stack around a populated base
					name := strings.Fields(c.Lines[0])[1]
					top, base := c16Stack(name)
					c16Build(base, t[1:])
					fs = top
				}
				return "ok"
			case "walk-history":
				return c16WalkHistory()
			case "walk-os-links":
				return c16WalkOSLinks(t[1])
			case "walk":
				plan := c16Plan(t[2:])
				var visits []string
				err := afero.Walk(fs, string(corr.UnHex(t[1])), func(p string, fi os.FileInfo, err error) error {
					k := "/f"
					if fi != nil && fi.IsDir() {
						k = "/d"
					}
					i := len(visits)
					visits = append(visits, corr.HexS(p)+k)
					return plan[i]
				})
				return c16Result(visits, err)
			case "glob":
				ms, err := afero.Glob(fs, string(corr.UnHex(t[1])))
				if err != nil {
					return "badpattern"
				}
				var hs []string
				for _, m := range ms {
					hs = append(hs, corr.HexS(m))
				}
				return "matches=" + strings.Join(hs, ",")
			}
			return "bad-op"
		}))
	}
	return out
}

// c16WalkOSLinks: a tree with symbolic links on the operating system's file system (the in-memory one has none): the
// package function afero.Walk, the method afero.Afero{Fs}.Walk and Walk through wrappers of the OsFs visit exactly what
// filepath.Walk visits — a link is reported as a link (not a directory), not followed, and a dangling link is no error.
func c16WalkOSLinks(how string) string {
	dir, err := os.MkdirTemp("", "verif-c16l-")
	if err != nil {
		return "fail: " + err.Error()
	}
	defer os.RemoveAll(dir)
	os.MkdirAll(filepath.Join(dir, "r/real/sub"), 0o755)
	os.WriteFile(filepath.Join(dir, "r/real/sub/f"), []byte("x"), 0o644)
	os.WriteFile(filepath.Join(dir, "r/a.txt"), []byte("x"), 0o644)
	os.Symlink(filepath.Join(dir, "r/real"), filepath.Join(dir, "r/linkdir"))
	os.Symlink("real/sub/f", filepath.Join(dir, "r/linkfile"))
	os.Symlink("nowhere", filepath.Join(dir, "r/dangling"))
	os.Symlink(filepath.Join(dir, "r"), filepath.Join(dir, "rootlink"))
	collect := func(walk func(root string, fn filepath.WalkFunc) error, root string) string {
		var vs []string
		err := walk(root, func(p string, fi os.FileInfo, err error) error {
			k := "?"
			if fi != nil {
				k = "f"
				if fi.IsDir() {
					k = "d"
				}
				if fi.Mode()&os.ModeSymlink != 0 {
					k = "l"
				}
			}
			e := ""
			if err != nil {
				e = "!"
			}
			vs = append(vs, strings.TrimPrefix(p, dir)+":"+k+e)
			return nil
		})
		return strings.Join(vs, " ") + fmt.Sprintf(" => %v", err != nil)
	}
	var osfs afero.Fs = afero.NewOsFs()
	var walk func(root string, fn filepath.WalkFunc) error
	switch how {
	case "func":
		walk = func(root string, fn filepath.WalkFunc) error { return afero.Walk(osfs, root, fn) }
	case "method":
		walk = afero.Afero{Fs: osfs}.Walk
	case "ro":
		ro := afero.NewReadOnlyFs(osfs)
		walk = func(root string, fn filepath.WalkFunc) error { return afero.Walk(ro, root, fn) }
	case "ro-method":
		walk = afero.Afero{Fs: afero.NewReadOnlyFs(osfs)}.Walk
	case "cow": // the tree is the base of a union whose overlay is empty
		cow := afero.NewCopyOnWriteFs(afero.NewReadOnlyFs(osfs), afero.NewMemMapFs())
		walk = func(root string, fn filepath.WalkFunc) error { return afero.Walk(cow, root, fn) }
	default:
		return "bad-op"
	}
	for _, root := range []string{filepath.Join(dir, "r"), filepath.Join(dir, "rootlink"), filepath.Join(dir, "r/linkdir"), filepath.Join(dir, "r/dangling")} {
		got, want := collect(walk, root), collect(filepath.Walk, root)
		if got != want {
			return fmt.Sprintf("fail: walking %s (%s): afero visits [%s], filepath.Walk visits [%s]", strings.TrimPrefix(root, dir), how, got, want)
		}
	}
	// Glob over the same tree: a directory reached through a link is a directory to list
	gfs := osfs
	if strings.HasPrefix(how, "ro") {
		gfs = afero.NewReadOnlyFs(osfs)
	}
	if how == "cow" {
		gfs = afero.NewCopyOnWriteFs(afero.NewReadOnlyFs(osfs), afero.NewMemMapFs())
	}
	for _, pat := range []string{"r/linkdir/*", "r/*/sub", "r/*/sub/f", "r/l*/s*", "rootlink/*", "rootlink/*/sub/*", "r/dangling/*", "r/linkfile/*", "r/*", "r/link*", "*/linkdir/sub/?", "r/[l]inkdir/*/f", "r/dangling", "r/linkfile", "r/d*"} {
		got, err1 := afero.Glob(gfs, filepath.Join(dir, pat))
		want, err2 := filepath.Glob(filepath.Join(dir, pat))
		if (err1 == nil) != (err2 == nil) || strings.Join(got, " ") != strings.Join(want, " ") {
			return fmt.Sprintf("fail: Glob(%s) (%s): afero gives %v, %v; filepath.Glob gives %v, %v", pat, how, got, err1, want, err2)
		}
	}
	return "ok"
}

// c16WalkHistory: a tree that was not built in one go but has a history (directories renamed with their contents,
// moved children removed, renamed, created again) — Walk and Glob over the MemMapFs that went through it against
// the standard library on an operating-system directory that went through the same calls.
func c16WalkHistory() string {
	dir, err := os.MkdirTemp("", "verif-c16h-")
	if err != nil {
		return "fail: " + err.Error()
	}
	defer os.RemoveAll(dir)
	mem := afero.NewMemMapFs()
	twin := afero.NewBasePathFs(afero.NewOsFs(), dir)
	for _, fs := range []afero.Fs{mem, twin} {
		fs.MkdirAll("/a/sub/deep", 0o755)
		for _, f := range []string{"/a/f", "/a/g", "/a/sub/x", "/a/sub/deep/y", "/top"} {
			afero.WriteFile(fs, f, []byte("x"), 0o644)
		}
		fs.Rename("/a", "/b")
		fs.Remove("/b/f")
		fs.Rename("/b/sub/x", "/b/sub/z")
		fs.Rename("/b/sub", "/b/moved")
		afero.WriteFile(fs, "/b/moved/new", []byte("n"), 0o644)
		fs.RemoveAll("/b/moved/deep")
		fs.Mkdir("/b/moved/deep", 0o755)
		fs.Rename("/top", "/b/g2")
	}
	collect := func(walk func(root string, fn filepath.WalkFunc) error, root, strip string) string {
		var vs []string
		err := walk(root, func(p string, fi os.FileInfo, err error) error {
			k := "?"
			if fi != nil {
				k = "f"
				if fi.IsDir() {
					k = "d"
				}
			}
			e := ""
			if err != nil {
				e = "!"
			}
			vs = append(vs, strings.TrimPrefix(p, strip)+":"+k+e)
			return nil
		})
		return strings.Join(vs, " ") + fmt.Sprintf(" => %v", err != nil)
	}
	for _, root := range []string{"/", "/b", "/b/moved", "/a"} {
		got := collect(func(r string, fn filepath.WalkFunc) error { return afero.Walk(mem, r, fn) }, root, "")
		want := collect(filepath.Walk, filepath.Join(dir, root), dir)
		if root == "/" {
			want = strings.Replace(want, ":d", "/:d", 1) // the twin's root is the directory itself
			want = strings.TrimPrefix(want, "/:d")
			got = strings.TrimPrefix(got, "/:d")
		}
		if got != want {
			return fmt.Sprintf("fail: walking %s of a tree with a history: afero visits [%s], filepath.Walk visits [%s]", root, got, want)
		}
	}
	// the same tree behind a cache that has already served one file (its directories exist in the cache layer by now),
	// and behind a union whose overlay holds one file: a directory is listed as the union of both layers
	for _, hl := range []struct {
		how string
		fs  afero.Fs
	}{{"a cache", afero.NewCacheOnReadFs(mem, afero.NewMemMapFs(), 0)}, {"a cache with an hour", afero.NewCacheOnReadFs(mem, afero.NewMemMapFs(), time.Hour)},
		{"a union", afero.NewCopyOnWriteFs(afero.NewReadOnlyFs(mem), afero.NewMemMapFs())}} {
		if _, err := afero.ReadFile(hl.fs, "/b/moved/new"); err != nil {
			return "fail: set-up: " + err.Error()
		}
		if hl.how == "a union" {
			hl.fs.Chmod("/b/moved/new", 0o600) // copies the file up
		}
		for _, root := range []string{"/", "/b", "/b/moved"} {
			got := collect(func(r string, fn filepath.WalkFunc) error { return afero.Walk(hl.fs, r, fn) }, root, "")
			want := collect(func(r string, fn filepath.WalkFunc) error { return afero.Walk(mem, r, fn) }, root, "")
			if got != want {
				return fmt.Sprintf("fail: walking %s through %s: [%s]; the tree itself: [%s]", root, hl.how, got, want)
			}
		}
		for _, pat := range []string{"/b/*", "/b/*/*", "/*/moved/*"} {
			got, _ := afero.Glob(hl.fs, pat)
			want, _ := afero.Glob(mem, pat)
			if strings.Join(got, " ") != strings.Join(want, " ") {
				return fmt.Sprintf("fail: Glob(%s) through %s gives %v, the tree itself %v", pat, hl.how, got, want)
			}
		}
	}
	for _, pat := range []string{"/b/*", "/b/*/*", "/*/moved/*", "/b/g*", "/a/*", "/b/moved/[a-z]*"} {
		got, err1 := afero.Glob(mem, pat)
		want, err2 := filepath.Glob(filepath.Join(dir, pat))
		for i := range want {
			want[i] = strings.TrimPrefix(want[i], dir)
		}
		if (err1 == nil) != (err2 == nil) || strings.Join(got, " ") != strings.Join(want, " ") {
			return fmt.Sprintf("fail: Glob(%s) over a tree with a history: afero gives %v, filepath.Glob gives %v", pat, got, want)
		}
	}
	return "ok"
}

func c16Oracle(c corr.Case, impl []string) (string, int) {
	for i, l := range c.Lines {
		if (strings.HasPrefix(l, "walk-os-links") || strings.HasPrefix(l, "walk-history")) && strings.HasPrefix(impl[i], "fail") {
			return impl[i], i
		}
	}
	dir, err := os.MkdirTemp("", "verif-c16-")
	if err != nil {
		panic(err)
	}
	defer os.RemoveAll(dir)
	rel := func(p string) string {
		r := strings.TrimPrefix(p, dir)
		if r == "" {
			return "/"
		}
		return r
	}
	for i, line := range c.Lines {
		t := strings.Fields(line)
		if impl[i] == "panic" {
			return "call panics: " + t[0], i
		}
		switch t[0] {
		case "tree":
			os.RemoveAll(dir)
			os.MkdirAll(dir, 0o755)
			c16Build(&rootedFs{afero.NewOsFs(), dir, false}, t[1:])
		case "walk":
			plan := c16Plan(t[2:])
			root := string(corr.UnHex(t[1]))
			var visits []string
			err := filepath.Walk(dir+root, func(p string, fi os.FileInfo, err error) error {
				k := "/f"
				if fi != nil && fi.IsDir() {
					k = "/d"
				}
				n := len(visits)
				rp := rel(p)
				if p == dir+root {
					rp = root // the root is reported as it was given
				}
				visits = append(visits, corr.HexS(rp)+k)
				return plan[n]
			})
			if want := c16Result(visits, err); want != impl[i] {
				return fmt.Sprintf("afero.Walk: %s ; filepath.Walk on the same tree: %s", impl[i], want), i
			}
		case "glob":
			pat := string(corr.UnHex(t[1]))
			ms, err := filepath.Glob(dir + pat)
			want := "badpattern"
			if err == nil {
				var hs []string
				for _, m := range ms {
					hs = append(hs, corr.HexS(rel(m)))
				}
				want = "matches=" + strings.Join(hs, ",")
			}
			if want != impl[i] {
				return fmt.Sprintf("afero.Glob(%q): %s ; filepath.Glob: %s", pat, impl[i], want), i
			}
		}
	}
	return "", -1
}

func c16Tree(r *corr.Rand) []string {
	// names include proper prefixes of each other continued by bytes below and above the separator
	// ('-', '.', ' ', '!' < '/' < '0', 'b'): the order of joined paths differs from the order of names
	names := []string{"a", "ab", "b", "c1", "x.go", "y.txt", "zz", "B", "a-b", "a.d", "a b", "a!", "a0", "aa", "aba"}
	var items []string
	seen := map[string]bool{}
	var gen func(dir string, depth int)
	gen = func(dir string, depth int) {
		n := r.Intn(5)
		if depth == 0 {
			n = 1 + r.Intn(5)
		}
		for i := 0; i < n; i++ {
			p := dir + "/" + corr.Pick(r, names)
			if seen[p] {
				continue
			}
			seen[p] = true
			if depth < 3 && r.Chance(45) {
				items = append(items, "d:"+corr.HexS(p))
				gen(p, depth+1)
			} else {
				items = append(items, "f:"+corr.HexS(p))
			}
		}
	}
	gen("/r", 0)
	sort.Strings(items)
	return append([]string{"d:" + corr.HexS("/r")}, items...)
}

func c16Paths(items []string) (all []string) {
	for _, it := range items {
		all = append(all, string(corr.UnHex(strings.SplitN(it, ":", 2)[1])))
	}
	return
}

var c16Patterns = []string{"/r/*", "/r/*/*", "/r/a*", "/r/?", "/r/??", "/r/[a-b]*", "/r/[^a]*", "/r/*/x.go", "/r/*/*.t?t", "/r/a", "/r/nope", "/r/*/[a-c]?",
	"/r/*/*/*", "/*/a", "/r/[a-c][a-c]", "/r/*.go", "/r/a/*", "/r/x.go/*", "/r/*b*", "/*", "/r/", "/r/*/",
	// a literal ".." after a wildcard segment: every segment before it is looked up, nothing is resolved lexically
	"/r/*/../a*", "/r/*/../*/x.go", "/*/../r/*", "/r/*/./*",
	// one star between literal ends that overlap: "a" must not match a*a, "ab" not ab*b, "aba" not aba*ba
	"/r/a*a", "/r/ab*b", "/r/*/a*a", "/r/a*ab", "/r/aba*ba", "/r/a*", "/r/*a"}

func c16Random(r *corr.Rand, tier string) []corr.Case {
	n := 350
	if tier == "thorough" {
		n = 12000
	}
	var cases []corr.Case
	for i := 0; i < n; i++ {
		rr := r.Fork()
		items := c16Tree(rr)
		paths := c16Paths(items)
		l := []string{"case " + corr.Pick(rr, []string{"mem", "mem", "ro", "cow"}), "tree " + strings.Join(items, " ")}
		nv := len(paths)
		roots := []string{"/r", "/r", "/r", corr.Pick(rr, paths), corr.Pick(rr, paths), "/nope", "/r/nope/deeper", "/"}
		// unclean spellings of a root: the root is reported as spelled, every descendant as Join(parent, name)
		var dirs []string // stepping through a regular file ("f/..", "f/") is ill-formed on the OS side
		for _, it := range items {
			if strings.HasPrefix(it, "d:") {
				dirs = append(dirs, string(corr.UnHex(it[2:])))
			}
		}
		for k := 0; k < 3; k++ {
			q := corr.Pick(rr, dirs)
			roots = append(roots, corr.Pick(rr, []string{q + "/", q + "/.", "/r/." + strings.TrimPrefix(q, "/r"), "/r/" + strings.TrimPrefix(q, "/r"),
				"/r/../r" + strings.TrimPrefix(q, "/r"), q + "//", "//r" + strings.TrimPrefix(q, "/r"), q + "/.."}))
		}
		for k := 0; k < 8; k++ {
			root := corr.Pick(rr, roots)
			plan := ""
			for j := 0; j < rr.Intn(4); j++ {
				act := corr.Pick(rr, []string{"s", "s", "a"})
				if rr.Chance(35) {
					act = fmt.Sprintf("%s%d", corr.Pick(rr, []string{"e", "e", "w", "v"}), 1+rr.Intn(3))
				}
				plan += fmt.Sprintf(" %d:%s", rr.Intn(nv+1), act)
			}
			l = append(l, "walk "+corr.HexS(root)+plan)
		}
		for k := 0; k < 6; k++ {
			l = append(l, "glob "+corr.HexS(corr.Pick(rr, c16Patterns)))
		}
		cases = append(cases, corr.Case{Lines: l})
	}
	return cases
}

// every single and every pair of (visit index, action) on a fixed tree: SkipDir / error on any entry
func c16Exhaustive(tier string) []corr.Case {
	h := corr.HexS
	links := corr.Case{Lines: []string{"case mem", "walk-os-links func", "walk-os-links method", "walk-os-links ro", "walk-os-links ro-method", "walk-os-links cow", "walk-history"}}
	items := []string{"d:" + h("/r"), "f:" + h("/r/a"), "d:" + h("/r/b"), "f:" + h("/r/b/x"), "d:" + h("/r/b/y"), "f:" + h("/r/b/y/z"), "f:" + h("/r/c"), "d:" + h("/r/d"), "f:" + h("/r/e")}
	cases := []corr.Case{links}
	for _, st := range []string{"mem", "ro", "cow"} {
		for _, root := range []string{"/r", "/r/b", "/r/a", "/r/d", "/nope", "/", "/r/./b", "/r//b", "/r/b/.", "/r/b/", "/r/d/../b", "/r/b/y/..", "/r/"} {
			l := []string{"case " + st, "tree " + strings.Join(items, " "), "walk " + h(root)}
			for i := 0; i < 10; i++ {
				for _, a := range []string{"s", "e1", "a", "w3", "v3"} {
					l = append(l, fmt.Sprintf("walk %s %d:%s", h(root), i, a))
					for j := i + 1; j < 10; j++ {
						l = append(l, fmt.Sprintf("walk %s %d:%s %d:s", h(root), i, a, j), fmt.Sprintf("walk %s %d:%s %d:e2", h(root), i, a, j))
					}
				}
			}
			cases = append(cases, corr.Case{Lines: l})
		}
		l := []string{"case " + st, "tree " + strings.Join(items, " ")}
		for _, p := range append(append([]string{}, c16Patterns...), "/r/b/../*", "/r/b/y/../x", "/r/b/../b/*") { // (/r/b and /r/b/y are directories of this tree)
			l = append(l, "glob "+h(p))
		}
		cases = append(cases, corr.Case{Lines: l})
		// sibling directories whose names are prefixes of each other: matches come directory by directory
		// in name order, which is not the string order of the joined paths
		var pre []string
		for _, d := range []string{"a", "a-b", "a.d", "a b", "a0", "ab"} {
			pre = append(pre, "d:"+h("/r/"+d), "f:"+h("/r/"+d+"/x.go"), "d:"+h("/r/"+d+"/a"), "f:"+h("/r/"+d+"/a/x.go"), "d:"+h("/r/"+d+"/a-b"), "f:"+h("/r/"+d+"/a-b/x.go"))
		}
		sort.Strings(pre)
		l = []string{"case " + st, "tree d:" + h("/r") + " " + strings.Join(pre, " ")}
		for _, p := range []string{"/r/*/x.go", "/r/a*/x.go", "/r/*/*/x.go", "/r/*/*", "/r/*", "/r/a?b/*", "/r/*/a*/x.go", "/*/*/x.go", "/r/a*a", "/r/ab*b", "/r/*/a*a", "/r/a*b", "/r/a*-b"} {
			l = append(l, "glob "+h(p))
		}
		cases = append(cases, corr.Case{Lines: l})
	}
	return cases
}

func C16() *corr.Engine {
	return &corr.Engine{
		ID: "C16", DriverEngine: "walk",
		Corpus: func() []corr.Case {
			h := corr.HexS
			// S11: SkipDir returned for a file directly in the root (and for a root that is a file / missing)
			return []corr.Case{{Lines: []string{"case mem", "tree d:" + h("/r") + " f:" + h("/r/a") + " f:" + h("/r/b"),
				"walk " + h("/r") + " 1:s", "walk " + h("/r/a") + " 0:s", "walk " + h("/nope") + " 0:s", "walk " + h("/r") + " 0:s"}}}
		},
		Exhaustive: c16Exhaustive, Random: c16Random,
		RunImpl: c16RunImpl, Oracle: c16Oracle,
		CompareLine: func(impl, model string) bool { return model == "unmodelled" || impl == model },
		NonTrivial: func(c corr.Case, impl []string) bool {
			skip, wild := false, false
			for _, l := range c.Lines {
				t := strings.Fields(l)
				if t[0] == "walk" && len(t) > 2 {
					skip = true
				}
				if t[0] == "glob" {
					p := string(corr.UnHex(t[1]))
					if strings.ContainsAny(filepath.Dir(p), "*?[") {
						wild = true
					}
				}
			}
			return skip || wild
		},
		Classify: func(c corr.Case, impl []string, hist map[string]int) {
			for i, l := range c.Lines {
				t := strings.Fields(l)
				hist["op:"+t[0]]++
				if t[0] == "case" {
					hist["stack:"+t[1]]++
				}
				if t[0] == "walk" {
					hist["walk-result:"+impl[i][strings.LastIndex(impl[i], "result=")+7:]]++
				}
			}
		},
		Rule: "random trees (depth ≤ 4, 8 names) × roots (existing dir/file, missing, /) × scripted callbacks (SkipDir or error at up to 3 visit indices) and a 22-pattern table; exhaustively every single and every pair of (visit index, action) on a fixed 9-entry tree for 6 roots on 3 stacks; non-trivial = a callback that skips or errors at least once, or a pattern with a wildcard in a non-final segment; distinct by script hash",
		Signature: func(c corr.Case, impl []string, what string, line int) string {
			if line < 0 || line >= len(c.Lines) {
				line = 0
			}
			return "C16:" + strings.Fields(c.Lines[line])[0]
		},
	}
}
