package engines

// deep-osl: a union or a cache whose writable layer is on the operating system's file system (it keeps real
// directories and does not make missing parents by itself) over a base that holds files several directories deep
// which the layer has never seen. Every way of getting such a file into the layer must make the directories it
// needs: a read through the cache, a metadata call, a write-open with and without O_TRUNC, and the helpers of util.go.
// Oracle only (the models have all-memory layers).

import (
	"bytes"
	"fmt"
	"os"
	"path/filepath"
	"strings"
	"time"

	"github.com/spf13/afero"
)

func deepOSL(kind string) string {
	dir, err := os.MkdirTemp("", "verif-deeposl-")
	if err != nil {
		return "fail: " + err.Error()
	}
	defer os.RemoveAll(dir)
	syscallUmask()
	base := afero.NewMemMapFs()
	files := []string{"/p/q/r/deep.txt", "/p/q/r/other.txt", "/p/q/second.txt", "/p/third.txt", "/top.txt", "/x/y/z/w/far.txt", "/m/n/chmod.txt", "/m/n/o/times.txt", "/t/u/trunc.txt", "/t/u/v/rw.txt", "/h/i/j/wr.txt"}
	for _, f := range files {
		base.MkdirAll(filepath.Dir(f), 0o755)
		afero.WriteFile(base, f, []byte("base:"+f), 0o644)
	}
	old := time.Now().Add(-3 * time.Hour)
	for _, f := range files {
		base.Chtimes(f, old, old)
	}
	layer := afero.NewBasePathFs(afero.NewOsFs(), dir)
	var fs afero.Fs
	switch kind {
	case "cow":
		fs = afero.NewCopyOnWriteFs(base, layer)
	case "cache0":
		fs = afero.NewCacheOnReadFs(base, layer, 0)
	case "cache1h":
		fs = afero.NewCacheOnReadFs(base, layer, time.Hour)
	default:
		return "bad-op"
	}
	inLayer := func(f string) (string, bool) {
		b, err := os.ReadFile(filepath.Join(dir, f))
		return string(b), err == nil
	}
	baseIs := func(f, want string) string {
		b, err := afero.ReadFile(base, f)
		if err != nil || string(b) != want {
			return fmt.Sprintf("fail: %s in the base holds %q, %v; it should hold %q", f, b, err, want)
		}
		return ""
	}
	// 1. reads
	for _, f := range files[:6] {
		b, err := afero.ReadFile(fs, f)
		if err != nil || string(b) != "base:"+f {
			return fmt.Sprintf("fail: (%s over an OS-backed layer) reading %s: %q, %v", kind, f, b, err)
		}
		if got, ok := inLayer(f); strings.HasPrefix(kind, "cache") && (!ok || got != "base:"+f) {
			return fmt.Sprintf("fail: (%s) after the first read of %s the layer holds %q (present: %v)", kind, f, got, ok)
		}
		if b2, err := afero.ReadFile(fs, f); err != nil || string(b2) != "base:"+f {
			return fmt.Sprintf("fail: (%s) second read of %s: %q, %v", kind, f, b2, err)
		}
	}
	// 2. metadata calls copy the file first
	if err := fs.Chmod("/m/n/chmod.txt", 0o600); err != nil {
		return fmt.Sprintf("fail: (%s) Chmod of a deep file the layer has not seen: %v", kind, err)
	}
	if got, ok := inLayer("/m/n/chmod.txt"); !ok || got != "base:/m/n/chmod.txt" {
		return fmt.Sprintf("fail: (%s) after Chmod the layer holds %q (present: %v)", kind, got, ok)
	}
	tm := time.Now().Add(-time.Minute)
	if err := fs.Chtimes("/m/n/o/times.txt", tm, tm); err != nil {
		return fmt.Sprintf("fail: (%s) Chtimes of a deep file the layer has not seen: %v", kind, err)
	}
	// 3. write-opens
	f, err := fs.OpenFile("/t/u/trunc.txt", os.O_WRONLY|os.O_TRUNC, 0o644)
	if err != nil {
		return fmt.Sprintf("fail: (%s) OpenFile(O_WRONLY|O_TRUNC) of a deep file the layer has not seen: %v", kind, err)
	}
	f.Write([]byte("new"))
	f.Close()
	if b, err := afero.ReadFile(fs, "/t/u/trunc.txt"); err != nil || string(b) != "new" {
		return fmt.Sprintf("fail: (%s) after truncating rewrite the file reads %q, %v", kind, b, err)
	}
	f, err = fs.OpenFile("/t/u/v/rw.txt", os.O_RDWR, 0o644)
	if err != nil {
		return fmt.Sprintf("fail: (%s) OpenFile(O_RDWR) of a deep file the layer has not seen: %v", kind, err)
	}
	f.WriteAt([]byte("XY"), 2)
	f.Close()
	want := []byte("base:/t/u/v/rw.txt")
	copy(want[2:], "XY")
	if b, err := afero.ReadFile(fs, "/t/u/v/rw.txt"); err != nil || !bytes.Equal(b, want) {
		return fmt.Sprintf("fail: (%s) after a patch the file reads %q, %v; want %q", kind, b, err, want)
	}
	// 4. the helpers of util.go over an existing deep file, and a new one in a directory only the base has
	if err := afero.WriteReader(fs, "/h/i/j/wr.txt", strings.NewReader("rewritten")); err != nil {
		return fmt.Sprintf("fail: (%s) WriteReader over a deep file the layer has not seen: %v", kind, err)
	}
	if b, err := afero.ReadFile(fs, "/h/i/j/wr.txt"); err != nil || string(b) != "rewritten" {
		return fmt.Sprintf("fail: (%s) after WriteReader the file reads %q, %v", kind, b, err)
	}
	if err := afero.WriteFile(fs, "/h/i/j/fresh.txt", []byte("fresh"), 0o644); err != nil {
		return fmt.Sprintf("fail: (%s) WriteFile of a new file in a directory only the base has: %v", kind, err)
	}
	if b, err := afero.ReadFile(fs, "/h/i/j/fresh.txt"); err != nil || string(b) != "fresh" {
		return fmt.Sprintf("fail: (%s) the new file reads %q, %v", kind, b, err)
	}
	if kind == "cow" { // the base keeps everything it had
		for _, f := range files {
			if r := baseIs(f, "base:"+f); r != "" {
				return r
			}
		}
	}
	return "ok"
}
