//go:build verif

// This file is NOT part of the harness module.  harness-c18/build.sh adds it to package afero
// of the tree under test as the virtual file <repo>/zz_verif_hooks.go (go build -overlay), so
// that the C18 harness can make the state of TempFile/TempDir's name generator an input.
// Nothing is written below <repo>; without `-tags verif` the file does not exist.
package afero

// VerifSetRandNum sets the state of nextRandom's generator (under its mutex).
func VerifSetRandNum(v uint32) {
	randmu.Lock()
	randNum = v
	randmu.Unlock()
}

// VerifGetRandNum reads the state of nextRandom's generator (under its mutex).
func VerifGetRandNum() uint32 {
	randmu.Lock()
	defer randmu.Unlock()
	return randNum
}
