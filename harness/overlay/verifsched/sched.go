// Package verifsched is compiled into afero ONLY by the verification harness, through a build
// overlay generated at check time (it does not exist in the repository).  Every X.Lock() /
// X.RLock() / X.Unlock() / X.RUnlock() statement of memmap.go and mem/file.go is rewritten to go
// through Lock / Unlock below, which lets a controlled scheduler run exactly one goroutine at a time,
// park it before every lock acquisition, detect blocked threads (TryLock) and log every lock event.
// With Active == false the functions are plain pass-throughs.
package verifsched

import "fmt"

type Event struct {
	Thread int
	Kind   string // start | want | acq | rel | opstart | opend | done
	Site   string
	Class  string // mu | file
	Mode   string // W | R
}

type Thread struct {
	ID      int
	wake    chan struct{}
	Blocked bool
	Done    bool
	Started bool
	// NoPost: no yield after a release while this thread runs its current operation (see PostYield)
	NoPost bool
}

var (
	Active  bool
	Cur     *Thread
	toSched chan Event
	Log     []Event
	// NoPreempt > 0: lock acquisitions do not yield. Only used around reads that can never block
	// (file locks are innermost, and a parked goroutine never holds one).
	NoPreempt int
	// PostYield: also yield right after every release, so that work a method does on shared data after it
	// has given up the lock can be interleaved with other goroutines. The harness switches it off per thread
	// (Thread.NoPost) for the calls whose result is a FileInfo or a listing: those are live views of the
	// file objects, and reading them is not part of the call.
	PostYield = true
)

// Reset prepares a new controlled execution.
func Reset() {
	Active = true
	Cur = nil
	toSched = make(chan Event)
	Log = nil
}

func Stop() { Active = false }

func NewThread(id int) *Thread { return &Thread{ID: id, wake: make(chan struct{})} }

// Yield hands control back to the scheduler and waits to be resumed.
func Yield(ev Event) {
	t := Cur
	ev.Thread = t.ID
	toSched <- ev
	<-t.wake
	Cur = t
}

// Resume lets thread t run until its next Yield (or its end) and returns that event.
func Resume(t *Thread) Event {
	Cur = t
	t.wake <- struct{}{}
	return <-toSched
}

// Go starts a controlled goroutine; body runs when the scheduler first resumes the thread.
func Go(t *Thread, body func()) {
	go func() {
		<-t.wake
		Cur = t
		body()
		t.Done = true
		toSched <- Event{Thread: t.ID, Kind: "done"}
	}()
}

func Lock(site, class, mode string, lock func(), try func() bool) {
	if !Active || Cur == nil {
		lock()
		return
	}
	if NoPreempt > 0 {
		lock()
		Log = append(Log, Event{Thread: Cur.ID, Kind: "acq", Site: site, Class: class, Mode: mode + "a"})
		return
	}
	for {
		Yield(Event{Kind: "want", Site: site, Class: class, Mode: mode})
		if try() {
			Log = append(Log, Event{Thread: Cur.ID, Kind: "acq", Site: site, Class: class, Mode: mode})
			return
		}
		Cur.Blocked = true // not eligible again until some lock is released
	}
}

func Unlock(site, class, mode string, unlock func()) {
	if !Active || Cur == nil {
		unlock()
		return
	}
	if NoPreempt > 0 {
		Log = append(Log, Event{Thread: Cur.ID, Kind: "rel", Site: site, Class: class, Mode: mode + "a"})
		unlock()
		return
	}
	Log = append(Log, Event{Thread: Cur.ID, Kind: "rel", Site: site, Class: class, Mode: mode})
	unlock() // a release of an unheld lock is a Go runtime fatal error: the process dies here
	Unblock()
	if PostYield && !Cur.NoPost {
		Yield(Event{Kind: "post", Site: site, Class: class, Mode: mode})
	}
}

// Unblock is set by the scheduler: every blocked thread may retry after a release.
var Unblock = func() {}

func (e Event) String() string {
	return fmt.Sprintf("t%d:%s:%s%s@%s", e.Thread, e.Kind, e.Class, e.Mode, e.Site)
}
